package main

import (
	"bufio"
	"fmt"
	"os"
	"path/filepath"
	"sort"
	"strconv"
	"strings"
)

// Clause is one requires/ensures/invariant line of a contract.
type Clause struct {
	Label string
	Src   string
	File  string
	Line  int
	Assumed bool // 'posits': assumed at call sites, not checked against the body (listed as assumption)
}

type LoopSpec struct {
	Invariants []Clause
	Decreases  *Clause
}

type GhostSet struct {
	Var string
	Src string
}

// Contract is the machine-checked specification attached to one function (or assumed for an
// interface method / external function).
type Contract struct {
	Key        string
	File       string
	Line       int
	Requires   []Clause
	Assumes    []Clause // assumed at entry, not an obligation of callers (input well-formedness; reported)
	Ensures    []Clause
	Loops      map[int]*LoopSpec
	Pure       bool // call sites use an uninterpreted function of the arguments (assumption unless body is proved deterministic+frame-free)
	ModNothing bool // "modifies nothing": call sites keep every heap (checked syntactically for in-repo bodies)
	Mods       []ModClause // assumed frame: union of clauses (see ModClause); empty and !ModNothing = may modify anything
	ModYounger string // (kept for the syntactic frame check) "modifies younger <expr>": writes only to the object <expr> points into and to younger objects (assumed)
	Trusted    bool // body is not verified; contract is an assumption
	Inline     bool // always inline at call sites
	NoInline   bool // never inline: uncontracted havoc
	AllowPanic bool // explicit panic() reachable is not an obligation
	ResultInArg bool // 'result in args': a returned slice/pointer lies in a 'modifies object argK' object or in fresh memory
	Wrapping   bool // signed + - * are two's-complement in this function (no int-overflow obligation)
	Sets       []GhostSet
	Params     []string // optional parameter names (for externals whose export data lost names)
	Callbacks  map[string]bool   // function-typed parameters assumed not to modify memory the function observes
	Witness    map[string]string // ensures label -> witness expression for its leading integer existential
	Used       bool
}

// ModClause is one "modifies" line: cells of heap kinds Kinds (all kinds if empty) that lie in the
// object Object points into (any object if empty) or in objects at least as young as Younger.
type ModClause struct {
	Object  string
	Younger string
	Kinds   []string
	Fields  []string // "T.f": exactly the field cells f of structs of (package-local or pkg.T) type T
}

type UFDecl struct {
	Name string
	Args []string
	Res  string
}

type Axiom struct {
	Label string
	Src   string
	File  string
	Line  int
	Pkg   string // package path whose scope resolves identifiers
}

type SpecDB struct {
	Contracts map[string]*Contract
	UFs       map[string]*UFDecl
	Ghosts    map[string]string // name -> SMT sort
	Axioms    []Axiom
	Files     []string
	Consts    map[string]string // named spec constants -> SMT term
	Macros    map[string]*Macro
	StableGhosts map[string]bool
}

// Macro is a spec-level definition: //@ def name(a, b) = expr
type Macro struct {
	Name   string
	Params []string
	Body   string
}

func NewSpecDB() *SpecDB {
	return &SpecDB{Contracts: map[string]*Contract{}, UFs: map[string]*UFDecl{}, Ghosts: map[string]string{}, Consts: map[string]string{}, Macros: map[string]*Macro{}, StableGhosts: map[string]bool{}}
}

// funcKey turns "F", "(*T).M", "(T).M", "iface pkg.I.M" written inside package pkgPath into the
// key used by the engine (ssa.Function.String() form, or "iface:..." for interface methods).
func funcKey(pkgPath, name string) string {
	name = strings.TrimSpace(name)
	if strings.HasPrefix(name, "iface ") {
		return "iface:" + strings.TrimSpace(name[6:])
	}
	if strings.HasPrefix(name, "type ") {
		// any function value of a named func type "type T" (T of the current package)
		return "functype:" + pkgPath + "." + strings.TrimSpace(name[5:])
	}
	if strings.HasPrefix(name, "field ") {
		// the function stored in a func-typed struct field: "field T.f" (T of the current package)
		return "field:" + pkgPath + "." + strings.TrimSpace(name[6:])
	}
	if strings.Contains(name, "/") || strings.HasPrefix(name, "(*"+pkgPath) {
		return name // already fully qualified
	}
	if strings.HasPrefix(name, "(*") {
		i := strings.Index(name, ")")
		return "(*" + pkgPath + "." + name[2:i] + ")" + name[i+1:]
	}
	if strings.HasPrefix(name, "(") {
		i := strings.Index(name, ")")
		return "(" + pkgPath + "." + name[1:i] + ")" + name[i+1:]
	}
	if strings.Contains(name, ".") && !strings.Contains(name, "$") {
		// pkgname.F for std-lib style names in catalog: keep
		return name
	}
	return pkgPath + "." + name
}

func parseLabel(s string) (label, rest string) {
	s = strings.TrimSpace(s)
	if strings.HasPrefix(s, "[") {
		if i := strings.Index(s, "]"); i > 0 {
			return s[1:i], strings.TrimSpace(s[i+1:])
		}
	}
	return "", s
}

// LoadSpecFile parses one contract file. pkgPath is the import path the short names refer to; a
// "//@ package <path>" line overrides it (used by catalog files).
func (db *SpecDB) LoadSpecFile(file, pkgPath string) error {
	f, err := os.Open(file)
	if err != nil {
		return err
	}
	defer f.Close()
	db.Files = append(db.Files, file)
	sc := bufio.NewScanner(f)
	sc.Buffer(make([]byte, 1<<20), 1<<20)
	var cur *Contract
	curLoop := -1
	ln := 0
	var pending string
	pendingLine := 0
	for sc.Scan() {
		ln++
		line := strings.TrimSpace(sc.Text())
		if !strings.HasPrefix(line, "//@") {
			continue
		}
		line = strings.TrimSpace(line[3:])
		if i := strings.Index(line, " //"); i >= 0 { // trailing comment
			line = strings.TrimSpace(line[:i])
		}
		if pending != "" {
			line = pending + " " + line
			pending = ""
		} else {
			pendingLine = ln
		}
		if strings.HasSuffix(line, "\\") {
			pending = strings.TrimSuffix(line, "\\")
			continue
		}
		if line == "" {
			continue
		}
		word, rest := line, ""
		if i := strings.IndexAny(line, " \t"); i >= 0 {
			word, rest = line[:i], strings.TrimSpace(line[i+1:])
		}
		mk := func() Clause {
			l, r := parseLabel(rest)
			return Clause{Label: l, Src: r, File: file, Line: pendingLine}
		}
		switch word {
		case "package":
			pkgPath = rest
		case "uf":
			// uf name(S1, S2) R
			i, j := strings.Index(rest, "("), strings.LastIndex(rest, ")")
			if i < 0 || j < i {
				return fmt.Errorf("%s:%d: bad uf", file, ln)
			}
			d := &UFDecl{Name: strings.TrimSpace(rest[:i]), Res: strings.TrimSpace(rest[j+1:])}
			for _, a := range strings.Split(rest[i+1:j], ",") {
				if a = strings.TrimSpace(a); a != "" {
					d.Args = append(d.Args, a)
				}
			}
			db.UFs[d.Name] = d
		case "ghost":
			fs := strings.SplitN(rest, " ", 2)
			if len(fs) != 2 {
				return fmt.Errorf("%s:%d: bad ghost", file, ln)
			}
			srt := strings.TrimSpace(fs[1])
			if strings.HasSuffix(srt, " stable") {
				// stable: only contracts that name it in `sets` change it; calls without a
				// contract are assumed not to (reported as an assumption when relied upon)
				srt = strings.TrimSpace(strings.TrimSuffix(srt, " stable"))
				db.StableGhosts[fs[0]] = true
			}
			db.Ghosts[fs[0]] = srt
		case "const":
			fs := strings.SplitN(rest, "=", 2)
			db.Consts[strings.TrimSpace(fs[0])] = strings.TrimSpace(fs[1])
		case "def":
			fs := strings.SplitN(rest, "=", 2)
			i, j := strings.Index(fs[0], "("), strings.LastIndex(fs[0], ")")
			if len(fs) != 2 || i < 0 || j < i {
				return fmt.Errorf("%s:%d: bad def", file, ln)
			}
			m := &Macro{Name: strings.TrimSpace(fs[0][:i]), Body: strings.TrimSpace(fs[1])}
			for _, a := range strings.Split(fs[0][i+1:j], ",") {
				if a = strings.TrimSpace(a); a != "" {
					m.Params = append(m.Params, a)
				}
			}
			db.Macros[m.Name] = m
		case "axiom":
			l, r := parseLabel(rest)
			db.Axioms = append(db.Axioms, Axiom{Label: l, Src: r, File: file, Line: pendingLine, Pkg: pkgPath})
		case "func":
			key := funcKey(pkgPath, rest)
			if c, ok := db.Contracts[key]; ok {
				cur = c // allow extension across files
			} else {
				cur = &Contract{Key: key, File: file, Line: pendingLine, Loops: map[int]*LoopSpec{}}
				db.Contracts[key] = cur
			}
			curLoop = -1
		case "loop":
			n, err := strconv.Atoi(strings.TrimSuffix(rest, ":"))
			if err != nil || cur == nil {
				return fmt.Errorf("%s:%d: bad loop header", file, ln)
			}
			curLoop = n
			if cur.Loops[n] == nil {
				cur.Loops[n] = &LoopSpec{}
			}
		case "requires":
			if cur == nil {
				return fmt.Errorf("%s:%d: clause outside func", file, ln)
			}
			cur.Requires = append(cur.Requires, mk())
		case "assumes":
			if cur == nil {
				return fmt.Errorf("%s:%d: clause outside func", file, ln)
			}
			cur.Assumes = append(cur.Assumes, mk())
		case "ensures":
			if cur == nil {
				return fmt.Errorf("%s:%d: clause outside func", file, ln)
			}
			cur.Ensures = append(cur.Ensures, mk())
		case "posits":
			if cur == nil {
				return fmt.Errorf("%s:%d: clause outside func", file, ln)
			}
			c := mk()
			c.Assumed = true
			cur.Ensures = append(cur.Ensures, c)
		case "invariant":
			if cur == nil || curLoop < 0 {
				return fmt.Errorf("%s:%d: invariant outside loop", file, ln)
			}
			cur.Loops[curLoop].Invariants = append(cur.Loops[curLoop].Invariants, mk())
		case "decreases":
			if cur == nil || curLoop < 0 {
				return fmt.Errorf("%s:%d: decreases outside loop", file, ln)
			}
			c := mk()
			cur.Loops[curLoop].Decreases = &c
		case "sets":
			fs := strings.SplitN(rest, "=", 2)
			if cur == nil || len(fs) != 2 {
				return fmt.Errorf("%s:%d: bad sets", file, ln)
			}
			cur.Sets = append(cur.Sets, GhostSet{Var: strings.TrimSpace(fs[0]), Src: strings.TrimSpace(fs[1])})
		case "callback":
			// callback <param> modifies nothing
			fs := strings.Fields(rest)
			if cur == nil || len(fs) != 3 || fs[1] != "modifies" || fs[2] != "nothing" {
				return fmt.Errorf("%s:%d: bad callback clause (want: callback <param> modifies nothing)", file, ln)
			}
			if cur.Callbacks == nil {
				cur.Callbacks = map[string]bool{}
			}
			cur.Callbacks[fs[0]] = true
		case "witness":
			l, r := parseLabel(rest)
			fs := strings.SplitN(r, "=", 2)
			if cur == nil || l == "" || len(fs) != 2 {
				return fmt.Errorf("%s:%d: bad witness (want: witness [label] var = expr)", file, ln)
			}
			if cur.Witness == nil {
				cur.Witness = map[string]string{}
			}
			cur.Witness[l] = strings.TrimSpace(fs[1])
		case "pure":
			cur.Pure = true
			cur.ModNothing = true
		case "modifies":
			if rest == "nothing" {
				cur.ModNothing = true
			} else {
				cl := ModClause{}
				r := rest
				if strings.HasPrefix(r, "fields ") {
					cl.Fields = strings.Fields(r[7:])
					cur.Mods = append(cur.Mods, cl)
					break
				}
				if i := strings.Index(r, "kinds "); i >= 0 {
					for _, k := range strings.Fields(r[i+6:]) {
						// map heaps are named by the sanitized map type; "map:<type>" = domain and values
						switch {
						case strings.HasPrefix(k, "map:"):
							cl.Kinds = append(cl.Kinds, "mapdom:"+sanitize(k[4:]), "mapval:"+sanitize(k[4:]))
						case strings.HasPrefix(k, "mapdom:") || strings.HasPrefix(k, "mapval:"):
							cl.Kinds = append(cl.Kinds, k[:7]+sanitize(k[7:]))
						default:
							cl.Kinds = append(cl.Kinds, k)
						}
					}
					r = strings.TrimSpace(r[:i])
				}
				switch {
				case strings.HasPrefix(r, "younger "):
					cl.Younger = strings.TrimSpace(strings.TrimPrefix(r, "younger "))
					cur.ModYounger = cl.Younger
				case strings.HasPrefix(r, "object "):
					cl.Object = strings.TrimSpace(strings.TrimPrefix(r, "object "))
				case r == "":
				default:
					return fmt.Errorf("%s:%d: bad modifies clause %q", file, ln, rest)
				}
				cur.Mods = append(cur.Mods, cl)
			}
		case "trusted":
			cur.Trusted = true
		case "inline":
			cur.Inline = true
		case "wrapping":
			cur.Wrapping = true
		case "result":
			if rest == "in args" {
				cur.ResultInArg = true
			}
		case "noinline":
			cur.NoInline = true
		case "allow":
			if rest == "panic" {
				cur.AllowPanic = true
			}
		case "params":
			cur.Params = strings.Fields(strings.ReplaceAll(rest, ",", " "))
		default:
			return fmt.Errorf("%s:%d: unknown directive %q", file, ln, word)
		}
	}
	return sc.Err()
}

// LoadCatalog loads every *.gospec under dir.
func (db *SpecDB) LoadCatalog(dir string) error {
	ms, _ := filepath.Glob(filepath.Join(dir, "*.gospec"))
	sort.Strings(ms)
	for _, m := range ms {
		if err := db.LoadSpecFile(m, ""); err != nil {
			return err
		}
	}
	return nil
}

// describesFreshMemory: a postcondition mentions fresh(...), i.e. it states facts about memory the
// callee allocates (a "modifies nothing" callee then still needs a post-state for those cells).
func (ct *Contract) describesFreshMemory() bool {
	for _, e := range ct.Ensures {
		if strings.Contains(e.Src, "fresh(") {
			return true
		}
	}
	return false
}
