package main

import (
	"fmt"
	"go/types"
	"os"
	"path/filepath"
	"sort"
	"strings"

	"golang.org/x/tools/go/packages"
	"golang.org/x/tools/go/ssa"
	"golang.org/x/tools/go/ssa/ssautil"
)

const repoModule = "github.com/anyproto/any-sync"
const contractFile = "zz_contracts_verif.go"

type Program struct {
	prog     *ssa.Program
	pkgs     []*packages.Package
	db       *SpecDB
	fucs     map[string]bool
	repoDir  string
	verifDir string
	stored   map[*ssa.Global]bool // globals written outside package initialisers
	notes    []string
	byKey    map[string]*ssa.Function
	ghostMemo map[*ssa.Function]map[string]bool
}

// LoadProgram loads the given packages of /repo's working tree (build tag verif) and their contracts.
func LoadProgram(repoDir, verifDir string, pkgPaths []string, overlay map[string][]byte) (*Program, error) {
	P := &Program{db: NewSpecDB(), fucs: map[string]bool{}, repoDir: repoDir, verifDir: verifDir, stored: map[*ssa.Global]bool{}, byKey: map[string]*ssa.Function{}, ghostMemo: map[*ssa.Function]map[string]bool{}}
	env := append(os.Environ(), "GOFLAGS=-mod=mod", "GOPROXY=off", "GOTOOLCHAIN=auto")
	// GOSUMDB must stay at its default for the offline toolchain switch to be accepted
	var clean []string
	for _, e := range env {
		if strings.HasPrefix(e, "GOSUMDB=") || strings.HasPrefix(e, "GOTOOLCHAIN=local") {
			continue
		}
		clean = append(clean, e)
	}
	cfg := &packages.Config{Mode: packages.LoadSyntax, Dir: repoDir, Tests: false, BuildFlags: []string{"-tags=verif"}, Env: clean, Overlay: overlay}
	// contract files missing from the working tree are supplied from /verif/contracts
	for _, pp := range pkgPaths {
		rel := strings.TrimPrefix(strings.TrimPrefix(pp, repoModule), "/")
		inRepo := filepath.Join(repoDir, rel, contractFile)
		mirror := filepath.Join(verifDir, "contracts", rel, contractFile)
		if _, err := os.Stat(inRepo); err != nil {
			if data, err2 := os.ReadFile(mirror); err2 == nil {
				if cfg.Overlay == nil {
					cfg.Overlay = map[string][]byte{}
				}
				cfg.Overlay[inRepo] = data
				P.notes = append(P.notes, "contract file absent from /repo, taken from /verif/contracts: "+rel+"/"+contractFile)
			}
		}
	}
	pkgs, err := packages.Load(cfg, pkgPaths...)
	if err != nil {
		return nil, err
	}
	var errs []string
	for _, p := range pkgs {
		for _, e := range p.Errors {
			errs = append(errs, e.Error())
		}
	}
	if len(errs) > 0 {
		return nil, fmt.Errorf("package errors: %s", strings.Join(errs, "; "))
	}
	P.pkgs = pkgs
	prog, _ := ssautil.Packages(pkgs, ssa.GlobalDebug|ssa.InstantiateGenerics)
	prog.Build()
	P.prog = prog
	if err := P.db.LoadCatalog(filepath.Join(verifDir, "catalog")); err != nil {
		return nil, err
	}
	for _, pp := range pkgPaths {
		rel := strings.TrimPrefix(strings.TrimPrefix(pp, repoModule), "/")
		inRepo := filepath.Join(repoDir, rel, contractFile)
		mirror := filepath.Join(verifDir, "contracts", rel, contractFile)
		file := inRepo
		if data, ok := cfg.Overlay[inRepo]; ok {
			// overlay content (mirror or mutant) - parse from a temp copy
			tmp, _ := os.CreateTemp("", "govc-contract-*.go")
			tmp.Write(data)
			tmp.Close()
			defer os.Remove(tmp.Name())
			file = tmp.Name()
			_ = mirror
		} else if _, err := os.Stat(inRepo); err != nil {
			continue
		}
		if err := P.db.LoadSpecFile(file, pp); err != nil {
			return nil, err
		}
	}
	for f := range ssautil.AllFunctions(prog) {
		if f.Pkg != nil || f.Parent() != nil {
			P.byKey[f.String()] = f
		}
		for _, b := range f.Blocks {
			for _, in := range b.Instrs {
				if st, ok := in.(*ssa.Store); ok {
					if gl, ok := st.Addr.(*ssa.Global); ok {
						if f.Name() != "init" && !strings.HasPrefix(f.Name(), "init#") {
							P.stored[gl] = true
						}
					}
				}
			}
		}
	}
	return P, nil
}

func (P *Program) FindFunc(key string) *ssa.Function {
	if f, ok := P.byKey[key]; ok {
		return f
	}
	return nil
}

func (P *Program) contractFor(f *ssa.Function) *Contract {
	if ct, ok := P.db.Contracts[fnKey(f)]; ok {
		return ct
	}
	// package-wide frame defaults from the catalog: "func <pkgpath>.*"
	if pp := funcPkgPath(f); pp != "" {
		if ct, ok := P.db.Contracts[pp+".*"]; ok {
			return ct
		}
	}
	return nil
}

func funcPkgPath(f *ssa.Function) string {
	if o := f.Origin(); o != nil {
		f = o
	}
	if f.Pkg != nil {
		return f.Pkg.Pkg.Path()
	}
	if obj := f.Object(); obj != nil && obj.Pkg() != nil {
		return obj.Pkg().Path()
	}
	if f.Signature.Recv() != nil {
		t := f.Signature.Recv().Type()
		if p, ok := t.(*types.Pointer); ok {
			t = p.Elem()
		}
		if n, ok := t.(*types.Named); ok && n.Obj().Pkg() != nil {
			return n.Obj().Pkg().Path()
		}
	}
	return ""
}

func (P *Program) inRepo(f *ssa.Function) bool {
	return strings.HasPrefix(funcPkgPath(f), repoModule) || (f.Parent() != nil && P.inRepo(f.Parent()))
}

func (P *Program) isFUC(f *ssa.Function) bool { return P.fucs[fnKey(f)] }

// frameFree: callee cannot write memory the caller can observe (conservative syntactic rule:
// no pointer-like parameter or receiver, and not a closure).
func (P *Program) frameFree(f *ssa.Function) bool {
	return false
}

// immutableGlobal: package-level variable never assigned outside package initialisation in the
// loaded program (for packages loaded without bodies this is assumed and reported).
func (P *Program) immutableGlobal(gl *ssa.Global) bool {
	if P.stored[gl] {
		return false
	}
	et := gl.Type().Underlying().(*types.Pointer).Elem()
	switch et.Underlying().(type) {
	case *types.Struct, *types.Array:
		return false // cells of the object may be written through field addresses
	}
	return true
}

func (P *Program) errorSentinel(gl *ssa.Global) bool {
	et := gl.Type().Underlying().(*types.Pointer).Elem()
	if !types.Identical(et, types.Universe.Lookup("error").Type()) {
		return false
	}
	if P.stored[gl] {
		return false
	}
	return strings.HasPrefix(gl.Name(), "Err") || strings.HasPrefix(gl.Name(), "err") || gl.Name() == "EOF"
}

func sortedKeys(m map[string]bool) []string {
	var out []string
	for k := range m {
		out = append(out, k)
	}
	sort.Strings(out)
	return out
}

// unknownContractKeys: contracts (from package contract files, not the catalog) that name a function or
// method that does not exist in a package known to the loaded program - almost always a typo, which
// would silently leave the real callee uncontracted.
func (P *Program) unknownContractKeys() []string {
	known := map[string]*types.Package{}
	var walk func(p *packages.Package)
	seen := map[string]bool{}
	walk = func(p *packages.Package) {
		if seen[p.PkgPath] {
			return
		}
		seen[p.PkgPath] = true
		if p.Types != nil {
			known[p.PkgPath] = p.Types
		}
		for _, ip := range p.Imports {
			walk(ip)
		}
	}
	for _, p := range P.pkgs {
		walk(p)
	}
	var bad []string
	for key, ct := range P.db.Contracts {
		if !strings.Contains(ct.File, "zz_contracts_verif") && !strings.Contains(ct.File, "govc-contract-") {
			continue
		}
		if strings.HasPrefix(key, "iface:") || strings.HasPrefix(key, "field:") || strings.HasPrefix(key, "functype:") || strings.HasSuffix(key, ".*") {
			continue
		}
		k := key
		recv := ""
		if strings.HasPrefix(k, "(") {
			i := strings.Index(k, ")")
			if i < 0 {
				continue
			}
			recv = strings.TrimPrefix(k[1:i], "*")
			k = k[i+1:]
			if !strings.HasPrefix(k, ".") {
				continue
			}
			meth := k[1:]
			if d := strings.Index(meth, "$"); d >= 0 {
				meth = meth[:d] // closure inside the method
			}
			j := strings.LastIndex(recv, ".")
			if j < 0 {
				continue
			}
			pkgPath, tname := recv[:j], recv[j+1:]
			if b := strings.Index(tname, "["); b >= 0 {
				tname = tname[:b]
			}
			tp, ok := known[pkgPath]
			if !ok {
				continue // package not part of this load: cannot judge
			}
			obj := tp.Scope().Lookup(tname)
			if obj == nil {
				bad = append(bad, key+" (no type "+tname+" in "+pkgPath+")")
				continue
			}
			if o, _, _ := types.LookupFieldOrMethod(types.NewPointer(obj.Type()), true, tp, meth); o == nil {
				bad = append(bad, key+" (no method "+meth+")")
			}
			continue
		}
		base := k
		if d := strings.Index(base, "$"); d >= 0 {
			base = base[:d]
		}
		j := strings.LastIndex(base, ".")
		if j < 0 {
			continue
		}
		pkgPath, fname := base[:j], base[j+1:]
		tp, ok := known[pkgPath]
		if !ok {
			continue
		}
		if fname != "init" && tp.Scope().Lookup(fname) == nil {
			bad = append(bad, key+" (no function "+fname+" in "+pkgPath+")")
		}
	}
	sort.Strings(bad)
	return bad
}
