package main

import (
	"fmt"
	"go/constant"
	"go/token"
	"go/types"
	"sort"
	"strings"

	"golang.org/x/tools/go/ssa"
)

type TV struct {
	T    string
	Typ  types.Type
	Sort string // SMT sort when Typ is nil (terms of uninterpreted functions)
}

// Oblig is one proof obligation: under the assumptions emitted before Offset, Guard implies Cond.
type Oblig struct {
	Name   string
	Kind   string
	Label  string
	Guard  string
	Cond   string
	Pos    token.Position
	Offset int // length of the body text that forms the context
	Src    string
	Cover  bool // cover query: expected sat (reachability), not a proof obligation
}

type inlRet struct {
	guard string
	vals  []string
	heap  *Heap
}

type deferRec struct {
	call  *ssa.CallCommon
	block *ssa.BasicBlock
}

// Heap is the symbolic store at a program point: explicit versions per heap key, and an epoch
// that resolves keys not yet mentioned on this path.
type Heap struct {
	m     map[string]string
	epoch int
}

func (h *Heap) clone() *Heap {
	n := &Heap{m: make(map[string]string, len(h.m)), epoch: h.epoch}
	for k, x := range h.m {
		n.m[k] = x
	}
	return n
}

type epochInfo struct {
	kind    string // entry | havoc | merge
	parent  int
	all     bool             // every key is affected (call havoc)
	ghosts  bool             // ghost keys are affected too (uncontracted call)
	unknown map[string]bool     // keys stored through addresses of unknown origin
	known   map[string][]string // keys stored through addresses rooted at known allocations (id terms)
	stable     map[string]bool  // stable ghosts (changed only by contracts naming them)
	ghostSet   map[string]bool  // ghosts named by `sets` of contracts reachable in the havoced region
	fieldConds map[string][]string // loop havoc: cells written only as named struct fields
	mods       []modTerm        // call havoc limited by an assumed frame (union of clauses)
	clockBefore string          // allocation clock before the call (objects younger than it are the callee's)
	entryClock string           // loop havoc: allocation clock at loop entry (frame covers older objects only)
	newClock   string           // allocation clock after the havoc (loaded pointers are not younger)
	conds   []string
	parents []int
	memo    map[string]string
}

func (ei *epochInfo) affected(key string) bool {
	if key == clockKey {
		return false
	}
	if strings.HasPrefix(key, "ghost:") {
		if strings.HasPrefix(key, "ghost:vis_") || (ei.stable != nil && ei.stable[strings.TrimPrefix(key, "ghost:")]) {
			return ei.ghostSet[strings.TrimPrefix(key, "ghost:")]
		}
		return ei.ghosts
	}
	return ei.all || ei.unknown[key] || len(ei.known[key]) > 0 || len(ei.fieldConds[key]) > 0
}

func (ei *epochInfo) extOnly(key string) bool {
	return ei.all || ei.unknown[key] || len(ei.fieldConds[key]) > 0
}

// restrict: for a call havoc with an assumed frame, the condition under which cell p of heap key
// may have changed ("" = no restriction: any non-private cell may change).
func (ei *epochInfo) restrict(key string) string {
	if ei.mods == nil {
		if !ei.all && !ei.unknown[key] && len(ei.fieldConds[key]) > 0 {
			return "(or " + strings.Join(ei.fieldConds[key], " ") + " false)"
		}
		return ""
	}
	var alts []string
	for _, m := range ei.mods {
		if m.fieldKey != "" {
			if m.fieldKey == key {
				alts = append(alts, m.fieldCond)
			}
			continue
		}
		if !m.kindMatches(key) {
			continue
		}
		switch {
		case m.object != "":
			alts = append(alts, fmt.Sprintf("(= (root p) %s)", m.object))
		case m.younger != "":
			alts = append(alts, fmt.Sprintf("(>= (root p) %s)", m.younger))
		default:
			return "" // the whole kind may change
		}
	}
	if ei.clockBefore != "" {
		alts = append(alts, fmt.Sprintf("(> (root p) %s)", ei.clockBefore))
	}
	return "(or " + strings.Join(alts, " ") + " false)"
}

// modTerm is an evaluated ModClause (root id terms instead of expressions).
type modTerm struct {
	object, younger string
	kinds           map[string]bool
	fieldKey        string // "modifies fields": heap key of the field and the condition on cell p
	fieldCond       string
}

// kindMatches: empty = every heap kind; "!k" entries exclude kinds (all others match).
func (m modTerm) kindMatches(key string) bool {
	if len(m.kinds) == 0 {
		return true
	}
	neg := false
	for k := range m.kinds {
		if strings.HasPrefix(k, "!") {
			neg = true
			if k[1:] == key {
				return false
			}
		}
	}
	if neg {
		return true
	}
	return m.kinds[key]
}

// shared state between a function's VC and its inlined callees
type shared struct {
	body        *strings.Builder
	obligs      []Oblig
	heapKeys    map[string]string // key -> sort of values ("RAW:" prefix = complete sort)
	heapVer     int
	structs     map[string]*types.Struct
	structNames map[string]string
	structOrd   []string
	strLits     map[string]string
	globals     map[string]string
	fresh       int
	allocN      int
	entryHeap   map[string]string
	mapValTy    map[string]int // map-value heap key -> layout id of the pointee, for maps whose values are tracked pointers
	unsupported []string
	assumptions map[string]bool
	ufs         map[string]string
	ufOrder     []string
	inlCount    int
	epochs      []*epochInfo
	typeIDs     map[string]int
	kindCount   map[string]int
	inlStack    []*ssa.Function
	sentinels   map[string]bool
	calls       map[string]bool
	globalConsts map[string]string
	globalFacts  []string
	features     map[string]bool
	extraAxioms  []string
	specErrors   []string
	usedAxioms   []string
	retCount     int
}

type VC struct {
	*shared
	P         *Program
	fn        *ssa.Function
	contract  *Contract
	names     map[ssa.Value]string
	closures  map[ssa.Value]*ssa.MakeClosure
	guard     map[*ssa.BasicBlock]string
	heapOut   map[*ssa.BasicBlock]*Heap
	loopHdr   map[*ssa.BasicBlock]int
	backEdge  map[[2]int]bool
	loopBody  map[*ssa.BasicBlock]map[*ssa.BasicBlock]bool
	pfx       string
	inline    bool
	rets      []inlRet
	defers    []deferRec
	hdrBefore map[*ssa.BasicBlock]map[string]TV
	hdrLoopHeap map[*ssa.BasicBlock]*Heap
	rangeDom    map[*ssa.Range]string // domain of a ranged map at the start of its range statement
	hdrDecr   map[*ssa.BasicBlock]string
	varOut    map[*ssa.BasicBlock]map[string]ssa.Value
	addrOut   map[*ssa.BasicBlock]map[string]ssa.Value
	curVars   map[string]ssa.Value
	curAddr   map[string]ssa.Value
	curHeap   *Heap
	hdrVenv   map[*ssa.BasicBlock]map[string]ssa.Value
	hdrAenv   map[*ssa.BasicBlock]map[string]ssa.Value
	paramCell map[string]ssa.Value
	allocID   map[ssa.Value]string
	fvRoot    map[*ssa.FreeVar]string // root id term a free variable is bound to ("" = unknown)
	preEnv    *SpecEnv
}

const W64 = "18446744073709551616"
const S63 = "9223372036854775808"
const clockKey = "ghost:!clock"
const freshRoot = "!fresh"

func (v *VC) emit(f string, a ...any) { fmt.Fprintf(v.body, f+"\n", a...) }

func (v *VC) freshName(p string) string { v.fresh++; return fmt.Sprintf("%s!%d", p, v.fresh) }

func (v *VC) unsupp(f string, a ...any) {
	s := fmt.Sprintf(f, a...)
	for _, u := range v.unsupported {
		if u == s {
			return
		}
	}
	v.unsupported = append(v.unsupported, s)
}

func (v *VC) note(f string, a ...any) { v.assumptions[fmt.Sprintf(f, a...)] = true }

// ---------- sorts ----------

func pkgQual(p *types.Package) string { return p.Name() }

func (v *VC) sortOf(t types.Type) string {
	switch u := t.Underlying().(type) {
	case *types.Basic:
		switch {
		case u.Info()&types.IsInteger != 0:
			return "Int"
		case u.Info()&types.IsBoolean != 0:
			return "Bool"
		case u.Info()&types.IsString != 0:
			return "Str"
		case u.Kind() == types.UntypedNil:
			return "Ptr"
		case u.Info()&types.IsFloat != 0:
			return "Real"
		case u.Kind() == types.UnsafePointer:
			return "Ptr"
		}
	case *types.Pointer, *types.Map, *types.Chan, *types.Signature:
		return "Ptr"
	case *types.Slice:
		return "Slice"
	case *types.Interface:
		return "Iface"
	case *types.Struct:
		return v.structSort(t, u)
	case *types.Tuple:
		return "Tuple"
	case *types.Array:
		return "(Array Int " + v.sortOf(u.Elem()) + ")"
	case *types.TypeParam:
		return "Iface"
	}
	v.unsupp("sort of %s", t.String())
	return "Ptr"
}

func (v *VC) structSort(t types.Type, u *types.Struct) string {
	full := types.TypeString(t, nil)
	name, seen := v.structNames[full]
	if !seen {
		name = "S_" + sanitize(types.TypeString(t, pkgQual))
		if len(name) > 80 {
			name = fmt.Sprintf("%s_%d", name[:60], len(name))
		}
		// different packages may share a name (sync.Mutex / internal/sync.Mutex)
		for _, taken := v.structs[name]; taken; _, taken = v.structs[name] {
			name += "x"
		}
		v.structNames[full] = name
	}
	if _, ok := v.structs[name]; !ok {
		v.structs[name] = u
		for i := 0; i < u.NumFields(); i++ { // nested sorts first
			v.sortOf(u.Field(i).Type())
		}
		v.structOrd = append(v.structOrd, name)
	}
	return name
}

var sanRepl = strings.NewReplacer(":", "_", ".", "_", "/", "_", "*", "p", "[", "_", "]", "_", " ", "_", "{", "_", "}", "_", ";", "_", "(", "_", ")", "_", ",", "_", "$", "_", "\"", "_", "-", "_", "#", "_", "=", "_", "<", "_", ">", "_", "|", "_", "&", "_", "'", "_", "\\", "_", "`", "_", "~", "_", "^", "_", "%", "_", "+", "_", "!", "_", "?", "_", "@", "_")

func sanitize(s string) string {
	s = sanRepl.Replace(s)
	ascii := true
	for i := 0; i < len(s); i++ {
		if s[i] >= 0x80 {
			ascii = false
			break
		}
	}
	if ascii {
		return s
	}
	// SMT-LIB simple symbols are ASCII: spell other runes out
	var sb strings.Builder
	for _, r := range s {
		if r < 0x80 {
			sb.WriteRune(r)
		} else {
			fmt.Fprintf(&sb, "_u%04x", r)
		}
	}
	return sb.String()
}

func intRange(t types.Type) (lo, hi string, ok bool) {
	b, isb := t.Underlying().(*types.Basic)
	if !isb || b.Info()&types.IsInteger == 0 {
		return
	}
	switch b.Kind() {
	case types.Int, types.Int64, types.UntypedInt, types.UntypedRune:
		return "(- " + S63 + ")", "9223372036854775807", true
	case types.Int32:
		return "(- 2147483648)", "2147483647", true
	case types.Int16:
		return "(- 32768)", "32767", true
	case types.Int8:
		return "(- 128)", "127", true
	case types.Uint, types.Uint64, types.Uintptr:
		return "0", "18446744073709551615", true
	case types.Uint32:
		return "0", "4294967295", true
	case types.Uint16:
		return "0", "65535", true
	case types.Uint8:
		return "0", "255", true
	}
	return
}

func isUnsigned(t types.Type) bool {
	lo, _, ok := intRange(t)
	return ok && lo == "0"
}

func wrapTo(t types.Type, e string) string {
	lo, hi, ok := intRange(t)
	if !ok {
		return e
	}
	if lo == "0" {
		return fmt.Sprintf("(mod %s (+ %s 1))", e, hi)
	}
	return fmt.Sprintf("(+ (mod (- %s %s) (+ (- %s %s) 1)) %s)", e, lo, hi, lo, lo)
}

func (v *VC) rangeFact(t types.Type, e string) string {
	lo, hi, ok := intRange(t)
	if ok {
		return fmt.Sprintf("(and (<= %s %s) (<= %s %s))", lo, e, e, hi)
	}
	switch u := t.Underlying().(type) {
	case *types.Pointer:
		// Go is type safe (no unsafe in the verified text): a non-nil *T points to a T
		if id := v.pointeeID(u.Elem()); id > 0 {
			v.features["tyof"] = true
			return fmt.Sprintf("(=> (not (= %s nilp)) (= (tyof %s) %d))", e, e, id)
		}
	case *types.Slice:
		return fmt.Sprintf("(and (<= 0 (s-off %s)) (<= 0 (s-len %s)) (<= (s-len %s) (s-cap %s)) (<= (s-cap %s) 9223372036854775807) (=> (= (s-base %s) nilp) (= (s-cap %s) 0)))", e, e, e, e, e, e, e)
	case *types.Basic:
		if u.Info()&types.IsString != 0 {
			return fmt.Sprintf("(<= 0 (strlen %s))", e)
		}
	case *types.Struct:
		var fs []string
		s := v.sortOf(t)
		for i := 0; i < u.NumFields(); i++ {
			f := v.rangeFact(u.Field(i).Type(), fmt.Sprintf("(%s-f%d %s)", s, i, e))
			if f != "true" {
				fs = append(fs, f)
			}
		}
		if len(fs) > 0 {
			return "(and " + strings.Join(fs, " ") + ")"
		}
	}
	return "true"
}

// pointeeID identifies the memory layout a pointer of element type t refers to (by underlying
// type, so that legal conversions between pointer types keep the id). 0 = not tracked.
func (v *VC) pointeeID(t types.Type) int {
	switch t.Underlying().(type) {
	case *types.Struct, *types.Basic, *types.Array, *types.Slice, *types.Map, *types.Pointer:
		return v.typeID(t.Underlying())
	}
	return 0
}

// tyofFact: address x holds a value of type t.
func (v *VC) tyofFact(t types.Type, x string) string {
	if id := v.pointeeID(t); id > 0 {
		v.features["tyof"] = true
		return fmt.Sprintf("(= (tyof %s) %d)", x, id)
	}
	return "true"
}

// extFact: the value does not refer to a private (non-escaping) local allocation.
func (v *VC) extFact(t types.Type, e string) string {
	switch v.sortOf(t) {
	case "Ptr":
		return fmt.Sprintf("(ext %s)", e)
	case "Slice":
		return fmt.Sprintf("(ext (s-base %s))", e)
	case "Iface":
		return fmt.Sprintf("(ext (iface-ptr %s))", e)
	}
	if st, ok := t.Underlying().(*types.Struct); ok {
		var fs []string
		s := v.sortOf(t)
		for i := 0; i < st.NumFields(); i++ {
			f := v.extFact(st.Field(i).Type(), fmt.Sprintf("(%s-f%d %s)", s, i, e))
			if f != "true" {
				fs = append(fs, f)
			}
		}
		if len(fs) > 0 {
			return "(and " + strings.Join(fs, " ") + ")"
		}
	}
	return "true"
}

// preFact: the value existed at function entry (root <= 0).
func (v *VC) preFact(t types.Type, e string) string {
	switch v.sortOf(t) {
	case "Ptr":
		return fmt.Sprintf("(<= (root %s) 0)", e)
	case "Slice":
		return fmt.Sprintf("(<= (root (s-base %s)) 0)", e)
	case "Iface":
		return fmt.Sprintf("(<= (root (iface-ptr %s)) 0)", e)
	}
	if st, ok := t.Underlying().(*types.Struct); ok {
		var fs []string
		s := v.sortOf(t)
		for i := 0; i < st.NumFields(); i++ {
			f := v.preFact(st.Field(i).Type(), fmt.Sprintf("(%s-f%d %s)", s, i, e))
			if f != "true" {
				fs = append(fs, f)
			}
		}
		if len(fs) > 0 {
			return "(and " + strings.Join(fs, " ") + ")"
		}
	}
	return "true"
}

// ---------- heap ----------

func (v *VC) heapKey(t types.Type) (key, sort string) {
	switch u := t.Underlying().(type) {
	case *types.Basic:
		if u.Info()&types.IsInteger != 0 || u.Info()&types.IsBoolean != 0 || u.Info()&types.IsString != 0 || u.Info()&types.IsFloat != 0 {
			n := u.Name()
			switch u.Kind() {
			case types.Uint8:
				n = "uint8"
			case types.Int32:
				n = "int32"
			}
			return n, v.sortOf(t)
		}
	case *types.Array:
		s := v.sortOf(t)
		return "arr_" + sanitize(s), s
	}
	s := v.sortOf(t)
	return strings.ToLower(s), s
}

func (v *VC) heapSortOf(k string) string {
	s := v.heapKeys[k]
	if strings.HasPrefix(s, "RAW:") {
		return s[4:]
	}
	return "(Array Ptr " + s + ")"
}

func isPtrLike(s string) bool { return s == "Ptr" || s == "Slice" || s == "Iface" }

func ptrOf(sort, e string) string {
	switch sort {
	case "Ptr":
		return e
	case "Slice":
		return "(s-base " + e + ")"
	case "Iface":
		return "(iface-ptr " + e + ")"
	}
	return ""
}

func (v *VC) registerKey(key, valSort string) {
	if _, ok := v.heapKeys[key]; !ok {
		v.heapKeys[key] = valSort
	}
}

// resolve returns the name of heap `key` at epoch e for paths that never touched it explicitly.
func (v *VC) resolve(key string, e int) string {
	ei := v.epochs[e]
	if n, ok := ei.memo[key]; ok {
		return n
	}
	var name string
	switch ei.kind {
	case "entry":
		name = "H0_" + sanitize(key)
		v.entryHeap[key] = name
	case "havoc":
		par := v.resolve(key, ei.parent)
		if !ei.affected(key) {
			name = par
			break
		}
		v.heapVer++
		name = fmt.Sprintf("HE%d_%s", v.heapVer, sanitize(key))
		v.declHeap(name, key)
		v.emitFrame(key, name, par, ei.known[key], ei.extOnly(key), ei.entryClock, ei.newClock, ei.restrict(key))
	case "merge":
		var ps []string
		same := true
		for _, p := range ei.parents {
			n := v.resolve(key, p)
			ps = append(ps, n)
			if n != ps[0] {
				same = false
			}
		}
		if same {
			name = ps[0]
			break
		}
		term := ps[len(ps)-1]
		for i := len(ps) - 2; i >= 0; i-- {
			term = fmt.Sprintf("(ite %s %s %s)", ei.conds[i], ps[i], term)
		}
		v.heapVer++
		name = fmt.Sprintf("HM%d_%s", v.heapVer, sanitize(key))
		v.emit("(define-fun %s () %s %s)", name, v.heapSortOf(key), term)
	}
	ei.memo[key] = name
	return name
}

// emitFrame: relation between a havoced heap version and its predecessor.
func (v *VC) emitFrame(key, nm, old string, known []string, extOnly bool, entryClock, newClock string, mayChange string) {
	srt := v.heapKeys[key]
	if strings.HasPrefix(key, "ghost:") {
		return
	}
	var conds []string
	if extOnly && mayChange != "" {
		conds = append(conds, fmt.Sprintf("(or (not (ext p)) (not %s))", mayChange))
	} else if extOnly {
		conds = append(conds, "(not (ext p))")
	}
	if entryClock != "" {
		conds = append(conds, fmt.Sprintf("(<= (root p) %s)", entryClock))
	}
	for _, id := range known {
		conds = append(conds, fmt.Sprintf("(not (= (root p) %s))", id))
	}
	c := "true"
	if len(conds) == 1 {
		c = conds[0]
	} else if len(conds) > 1 {
		c = "(and " + strings.Join(conds, " ") + ")"
	}
	v.emit("(assert (forall ((p Ptr)) (! (=> %s (= (select %s p) (select %s p))) :pattern ((select %s p)))))", c, nm, old, nm)
	if newClock != "" {
		if ax := v.mapValClockAxiom(nm, key, newClock); ax != "" {
			v.emit("%s", ax)
		}
	}
	if !strings.HasPrefix(srt, "RAW:") && isPtrLike(srt) {
		sel := ptrOf(srt, fmt.Sprintf("(select %s p)", nm))
		// values in cells visible to callees never point to private allocations
		v.emit("(assert (forall ((p Ptr)) (! (=> (ext p) (ext %s)) :pattern ((select %s p)))))", sel, nm)
		if newClock != "" {
			// no cell holds a pointer to an object that is not allocated yet
			v.emit("(assert (forall ((p Ptr)) (! (<= (root %s) %s) :pattern ((select %s p)))))", sel, newClock, nm)
		}
	}
}

// mapValClockAxiom: no value stored in a map of pointer-like values refers to an object that is not
// allocated yet at clock clk ("" when the heap is not such a map-value heap).
func (v *VC) mapValClockAxiom(nm, key, clk string) string {
	if !strings.HasPrefix(key, "mapval:") {
		return ""
	}
	srt := v.heapKeys[key] // RAW:(Array Ptr (Array K V))
	const pre = "RAW:(Array Ptr (Array "
	if !strings.HasPrefix(srt, pre) || !strings.HasSuffix(srt, "))") {
		return ""
	}
	inner := srt[len(pre) : len(srt)-2] // "K V"
	var ks, vs string
	for _, cand := range []string{"Ptr", "Slice", "Iface"} {
		if strings.HasSuffix(inner, " "+cand) {
			ks, vs = strings.TrimSuffix(inner, " "+cand), cand
		}
	}
	if vs == "" {
		return ""
	}
	sel := fmt.Sprintf("(select (select %s m) k)", nm)
	return fmt.Sprintf("(assert (forall ((m Ptr) (k %s)) (! (<= (root %s) %s) :pattern (%s))))", ks, ptrOf(vs, sel), clk, sel)
}

var intKeyRange = map[string][2]string{
	"int": {"(- " + S63 + ")", "9223372036854775807"}, "int64": {"(- " + S63 + ")", "9223372036854775807"},
	"int32": {"(- 2147483648)", "2147483647"}, "int16": {"(- 32768)", "32767"}, "int8": {"(- 128)", "127"},
	"uint": {"0", "18446744073709551615"}, "uint64": {"0", "18446744073709551615"}, "uintptr": {"0", "18446744073709551615"},
	"uint32": {"0", "4294967295"}, "uint16": {"0", "65535"}, "uint8": {"0", "255"},
}

// heapTypeAxiom: every cell of an integer heap holds a value of its machine type.
func (v *VC) heapTypeAxiom(nm, key string) string {
	if id, ok := v.mapValTy[key]; ok {
		// Go is type safe: a non-nil *T stored in a map points to a T (the fact rangeFact states for loaded values)
		srt := v.heapKeys[key] // RAW:(Array Ptr (Array K Ptr))
		ks := strings.TrimSuffix(strings.TrimPrefix(srt, "RAW:(Array Ptr (Array "), " Ptr))")
		sel := fmt.Sprintf("(select (select %s m) k)", nm)
		return fmt.Sprintf("(assert (forall ((m Ptr) (k %s)) (! (=> (not (= %s nilp)) (= (tyof %s) %d)) :pattern (%s))))", ks, sel, sel, id, sel)
	}
	if r, ok := intKeyRange[key]; ok {
		return fmt.Sprintf("(assert (forall ((p Ptr)) (! (and (<= %s (select %s p)) (<= (select %s p) %s)) :pattern ((select %s p)))))", r[0], nm, nm, r[1], nm)
	}
	if key == "string" {
		return ""
	}
	if v.heapKeys[key] == "Slice" {
		return fmt.Sprintf("(assert (forall ((p Ptr)) (! (and (<= 0 (s-off (select %s p))) (<= 0 (s-len (select %s p))) (<= (s-len (select %s p)) (s-cap (select %s p)))) :pattern ((select %s p)))))", nm, nm, nm, nm, nm)
	}
	return ""
}

// declHeap declares a new (havoced) version of a heap with its type invariant.
func (v *VC) declHeap(nm, key string) {
	v.emit("(declare-const %s %s)", nm, v.heapSortOf(key))
	if ax := v.heapTypeAxiom(nm, key); ax != "" {
		v.emit("%s", ax)
	}
}

func (v *VC) clock(h *Heap) string { return v.heapGet(h, clockKey, "RAW:Int") }

// advanceClock: the allocation clock may have advanced by an unknown amount (callee allocations).
func (v *VC) advanceClock(h *Heap) (old, nw string) {
	old = v.clock(h)
	nw = v.freshName("clk")
	v.emit("(declare-const %s Int)", nw)
	v.emit("(assert (>= %s %s))", nw, old)
	h.m[clockKey] = nw
	return
}

// newAlloc: a fresh object id, younger than everything that exists.
func (v *VC) newAlloc(private bool, h *Heap) string {
	v.allocN++
	a := fmt.Sprintf("a!%d", v.allocN)
	v.emit("(declare-const %s Int)", a)
	v.emit("(assert (> %s %s))", a, v.clock(h))
	if private {
		v.emit("(assert (priv %s))", a)
	} else {
		v.emit("(assert (not (priv %s)))", a)
	}
	h.m[clockKey] = a
	return a
}

// validFact: the value does not refer to an object that has not been allocated yet.
func (v *VC) validFact(t types.Type, e string, h *Heap) string {
	return v.validFactC(t, e, v.clock(h))
}

func (v *VC) validFactC(t types.Type, e string, clk string) string {
	switch s := v.sortOf(t); s {
	case "Ptr", "Slice", "Iface":
		return fmt.Sprintf("(<= (root %s) %s)", ptrOf(s, e), clk)
	}
	if st, ok := t.Underlying().(*types.Struct); ok {
		var fs []string
		s := v.sortOf(t)
		for i := 0; i < st.NumFields(); i++ {
			f := v.validFactC(st.Field(i).Type(), fmt.Sprintf("(%s-f%d %s)", s, i, e), clk)
			if f != "true" {
				fs = append(fs, f)
			}
		}
		if len(fs) > 0 {
			return "(and " + strings.Join(fs, " ") + ")"
		}
	}
	return "true"
}

func (v *VC) newEpoch(ei *epochInfo) int {
	ei.memo = map[string]string{}
	v.epochs = append(v.epochs, ei)
	return len(v.epochs) - 1
}

func (v *VC) heapGet(h *Heap, key, valSort string) string {
	v.registerKey(key, valSort)
	if n, ok := h.m[key]; ok {
		return n
	}
	n := v.resolve(key, h.epoch)
	h.m[key] = n
	return n
}

func (v *VC) heapSet(h *Heap, key, term string) string {
	v.heapVer++
	nm := fmt.Sprintf("H%d_%s", v.heapVer, sanitize(key))
	v.emit("(define-fun %s () %s %s)", nm, v.heapSortOf(key), term)
	h.m[key] = nm
	return nm
}

// havocAll models a call to code we know nothing about: every cell that is not a private local
// may change; results of later loads are arbitrary (but never private pointers). Ghost state is
// havoced too when ghosts is set (callee without any contract).
func (v *VC) havocAll(h *Heap, ghosts bool) { v.havocFramed(h, ghosts, nil) }

// havocFramed: a call whose (assumed) frame is the union of mods (nil = anything may change).
func (v *VC) havocFramed(h *Heap, ghosts bool, mods []modTerm) {
	before, nw := v.advanceClock(h)
	keys := make([]string, 0, len(h.m))
	for k := range h.m {
		keys = append(keys, k)
	}
	sort.Strings(keys)
	ei := &epochInfo{kind: "havoc", parent: h.epoch, all: true, ghosts: ghosts, newClock: nw, stable: v.P.db.StableGhosts, mods: mods, clockBefore: before}
	ne := v.newEpoch(ei)
	for _, k := range keys {
		if k == clockKey || strings.HasPrefix(k, "ghost:vis_") || (strings.HasPrefix(k, "ghost:") && (!ghosts || v.P.db.StableGhosts[strings.TrimPrefix(k, "ghost:")])) {
			continue
		}
		old := h.m[k]
		v.heapVer++
		nm := fmt.Sprintf("H%d_%s", v.heapVer, sanitize(k))
		v.declHeap(nm, k)
		v.emitFrame(k, nm, old, nil, true, "", nw, ei.restrict(k))
		h.m[k] = nm
	}
	h.epoch = ne
}

func (v *VC) load(t types.Type, ptr string, h *Heap) string {
	if st, ok := t.Underlying().(*types.Struct); ok {
		s := v.sortOf(t)
		var parts []string
		for i := 0; i < st.NumFields(); i++ {
			parts = append(parts, v.load(st.Field(i).Type(), fmt.Sprintf("(fld %s %d)", ptr, i), h))
		}
		if len(parts) == 0 {
			return "mk-" + s
		}
		return fmt.Sprintf("(mk-%s %s)", s, strings.Join(parts, " "))
	}
	key, srt := v.heapKey(t)
	return fmt.Sprintf("(select %s %s)", v.heapGet(h, key, srt), ptr)
}

func (v *VC) store(t types.Type, ptr, val string, h *Heap) {
	if st, ok := t.Underlying().(*types.Struct); ok {
		s := v.sortOf(t)
		for i := 0; i < st.NumFields(); i++ {
			v.store(st.Field(i).Type(), fmt.Sprintf("(fld %s %d)", ptr, i), fmt.Sprintf("(%s-f%d %s)", s, i, val), h)
		}
		return
	}
	key, srt := v.heapKey(t)
	old := v.heapGet(h, key, srt)
	v.heapSet(h, key, fmt.Sprintf("(store %s %s %s)", old, ptr, val))
}

func (v *VC) mapKeys(mt *types.Map) (dk, vk, ks, vs string) {
	ks = v.sortOf(mt.Key())
	vs = v.sortOf(mt.Elem())
	tn := sanitize(types.TypeString(mt, pkgQual))
	dk = "mapdom:" + tn
	vk = "mapval:" + tn
	v.registerKey(dk, fmt.Sprintf("RAW:(Array Ptr (Array %s Bool))", ks))
	v.registerKey(vk, fmt.Sprintf("RAW:(Array Ptr (Array %s %s))", ks, vs))
	if pt, ok := mt.Elem().Underlying().(*types.Pointer); ok {
		if id := v.pointeeID(pt.Elem()); id > 0 {
			if v.mapValTy == nil {
				v.mapValTy = map[string]int{}
			}
			v.mapValTy[vk] = id
			v.features["tyof"] = true
		}
	}
	return
}

func (v *VC) zero(t types.Type) string {
	switch s := v.sortOf(t); s {
	case "Int":
		return "0"
	case "Bool":
		return "false"
	case "Str":
		return "str_empty"
	case "Ptr":
		return "nilp"
	case "Slice":
		return "nil_slice"
	case "Iface":
		return "inil"
	case "Real":
		return "0.0"
	default:
		if st, ok := t.Underlying().(*types.Struct); ok {
			var parts []string
			for i := 0; i < st.NumFields(); i++ {
				parts = append(parts, v.zero(st.Field(i).Type()))
			}
			if len(parts) == 0 {
				return "mk-" + s
			}
			return fmt.Sprintf("(mk-%s %s)", s, strings.Join(parts, " "))
		}
		if arr, ok := t.Underlying().(*types.Array); ok {
			return fmt.Sprintf("((as const %s) %s)", s, v.zero(arr.Elem()))
		}
	}
	return "nilp"
}

// ---------- values ----------

func (v *VC) typeID(t types.Type) int {
	k := types.TypeString(t, nil)
	if id, ok := v.typeIDs[k]; ok {
		return id
	}
	id := len(v.typeIDs) + 1
	v.typeIDs[k] = id
	return id
}

func (v *VC) val(x ssa.Value) string {
	switch c := x.(type) {
	case *ssa.Const:
		return v.constTerm(c)
	case *ssa.Global:
		n := "glob_" + sanitize(c.Pkg.Pkg.Name()+"_"+c.Name())
		v.globals[n] = n
		return n
	case *ssa.Function:
		n := "fn_" + sanitize(c.String())
		v.globals[n] = n
		return n
	case *ssa.Builtin:
		return "nilp"
	}
	if n, ok := v.names[x]; ok {
		return n
	}
	n := "v_" + v.pfx + sanitize(x.Name())
	v.names[x] = n
	return n
}

func (v *VC) strLit(sv string) string {
	if sv == "" {
		return "str_empty"
	}
	if n, ok := v.strLits[sv]; ok {
		return n
	}
	n := fmt.Sprintf("strlit_%d", len(v.strLits))
	v.strLits[sv] = n
	return n
}

func (v *VC) constTerm(c *ssa.Const) string {
	if c.Value == nil {
		return v.zero(c.Type())
	}
	switch c.Value.Kind() {
	case constant.Bool:
		return fmt.Sprint(constant.BoolVal(c.Value))
	case constant.Int:
		s := c.Value.ExactString()
		if strings.HasPrefix(s, "-") {
			return "(- " + s[1:] + ")"
		}
		return s
	case constant.String:
		return v.strLit(constant.StringVal(c.Value))
	case constant.Float:
		f, _ := constant.Float64Val(c.Value)
		s := fmt.Sprintf("%f", f)
		if strings.HasPrefix(s, "-") {
			return "(- " + s[1:] + ")"
		}
		return s
	}
	return v.zero(c.Type())
}

func (v *VC) define(x ssa.Value, term string) {
	n := "v_" + v.pfx + sanitize(x.Name())
	v.names[x] = n
	v.emit("(define-fun %s () %s %s)", n, v.sortOf(x.Type()), term)
}

func (v *VC) declare(x ssa.Value) string {
	n := "v_" + v.pfx + sanitize(x.Name())
	if x.Name() == "_" {
		n = v.freshName("v_" + v.pfx + "blank")
	}
	v.names[x] = n
	if x.Type() == nil {
		return n
	}
	if tup, ok := x.Type().(*types.Tuple); ok {
		for k := 0; k < tup.Len(); k++ {
			v.emit("(declare-const %s_%d %s)", n, k, v.sortOf(tup.At(k).Type()))
			v.assume("true", v.rangeFact(tup.At(k).Type(), fmt.Sprintf("%s_%d", n, k)))
		}
		return n
	}
	v.emit("(declare-const %s %s)", n, v.sortOf(x.Type()))
	v.assume("true", v.rangeFact(x.Type(), n))
	return n
}

func (v *VC) oblige(kind, label, guard, cond string, pos token.Pos, src string) {
	v.kindCount[kind+"|"+label]++
	name := kind
	if label != "" {
		name += "[" + label + "]"
	}
	name = fmt.Sprintf("%s#%d", name, v.kindCount[kind+"|"+label])
	var p token.Position
	if pos.IsValid() {
		p = v.fn.Prog.Fset.Position(pos)
	}
	if strings.HasSuffix(p.Filename, ".pb.go") && kind != "ensures" {
		// inlined accessor of generated protobuf code: outside the verified text
		v.note("generated protobuf code (*.pb.go) is assumed not to panic; oneof wrappers are non-nil (obligation kind %s skipped there)", kind)
		return
	}
	v.obligs = append(v.obligs, Oblig{Name: name, Kind: kind, Label: label, Guard: guard, Cond: cond, Pos: p, Offset: v.body.Len(), Src: src})
}

// safety obligation: checked, then assumed for what follows (execution continues only if it held)
func (v *VC) safety(kind, guard, cond string, pos token.Pos) {
	v.oblige(kind, "", guard, cond, pos, "")
	v.assume(guard, cond)
}

func (v *VC) cover(name, guard string, pos token.Pos) {
	var p token.Position
	if pos.IsValid() {
		p = v.fn.Prog.Fset.Position(pos)
	}
	v.obligs = append(v.obligs, Oblig{Name: name, Kind: "cover", Guard: guard, Cond: "false", Pos: p, Offset: v.body.Len(), Cover: true})
}

func (v *VC) assume(guard, fact string) {
	if fact == "true" || fact == "" {
		return
	}
	if guard == "true" {
		v.emit("(assert %s)", fact)
		return
	}
	v.emit("(assert (=> %s %s))", guard, fact)
}

// ---------- CFG analysis ----------

func (v *VC) analyzeLoops() {
	v.loopHdr = map[*ssa.BasicBlock]int{}
	v.backEdge = map[[2]int]bool{}
	v.loopBody = map[*ssa.BasicBlock]map[*ssa.BasicBlock]bool{}
	var hdrs []*ssa.BasicBlock
	for _, b := range v.fn.Blocks {
		for _, s := range b.Succs {
			if s.Dominates(b) {
				v.backEdge[[2]int{b.Index, s.Index}] = true
				if _, ok := v.loopBody[s]; !ok {
					v.loopBody[s] = map[*ssa.BasicBlock]bool{s: true}
					hdrs = append(hdrs, s)
				}
				stack := []*ssa.BasicBlock{b}
				for len(stack) > 0 {
					n := stack[len(stack)-1]
					stack = stack[:len(stack)-1]
					if v.loopBody[s][n] {
						continue
					}
					v.loopBody[s][n] = true
					stack = append(stack, n.Preds...)
				}
			}
		}
	}
	sort.Slice(hdrs, func(i, j int) bool { return hdrs[i].Index < hdrs[j].Index })
	for i, h := range hdrs {
		v.loopHdr[h] = i
	}
}

func (v *VC) topo() []*ssa.BasicBlock {
	seen := map[*ssa.BasicBlock]bool{}
	var post []*ssa.BasicBlock
	var dfs func(b *ssa.BasicBlock)
	dfs = func(b *ssa.BasicBlock) {
		seen[b] = true
		for _, s := range b.Succs {
			if v.backEdge[[2]int{b.Index, s.Index}] || seen[s] {
				continue
			}
			dfs(s)
		}
		post = append(post, b)
	}
	dfs(v.fn.Blocks[0])
	for i, j := 0, len(post)-1; i < j; i, j = i+1, j-1 {
		post[i], post[j] = post[j], post[i]
	}
	return post
}

func (v *VC) edgeCond(p, b *ssa.BasicBlock) string {
	g := v.guard[p]
	if iff, ok := p.Instrs[len(p.Instrs)-1].(*ssa.If); ok {
		c := v.val(iff.Cond)
		if p.Succs[0] == b && p.Succs[1] == b {
			return g
		}
		if p.Succs[0] == b {
			return fmt.Sprintf("(and %s %s)", g, c)
		}
		return fmt.Sprintf("(and %s (not %s))", g, c)
	}
	return g
}

// ---------- escape analysis ----------

// isPrivate: the allocation's address is only used to load/store/address fields in this function
// (or captured by closures that are only called/deferred here), so no callee can reach it.
func (v *VC) isPrivate(a ssa.Value) bool {
	seen := map[ssa.Value]bool{}
	var ok func(x ssa.Value) bool
	ok = func(x ssa.Value) bool {
		if seen[x] {
			return true
		}
		seen[x] = true
		refs := x.Referrers()
		if refs == nil {
			return false
		}
		for _, r := range *refs {
			switch i := r.(type) {
			case *ssa.DebugRef:
			case *ssa.UnOp:
				if i.Op != token.MUL {
					return false
				}
			case *ssa.Store:
				if i.Val == x {
					return false
				}
			case *ssa.FieldAddr:
				if !ok(i) {
					return false
				}
			case *ssa.IndexAddr:
				if i.X != x || !ok(i) {
					return false
				}
			case *ssa.MapUpdate:
				if i.Map != x {
					return false
				}
			case *ssa.Lookup:
				if i.X != x {
					return false
				}
			case *ssa.Range:
			case *ssa.Call:
				if bi, isb := i.Call.Value.(*ssa.Builtin); isb {
					switch bi.Name() {
					case "len", "cap", "delete", "clear":
						continue
					}
				}
				return false
			case *ssa.MakeClosure:
				if !v.closureLocal(i) {
					return false
				}
			default:
				return false
			}
		}
		return true
	}
	return ok(a)
}

// closureLocal: the closure value is only called directly or deferred in the defining function.
func (v *VC) closureLocal(mc *ssa.MakeClosure) bool {
	refs := mc.Referrers()
	if refs == nil {
		return false
	}
	for _, r := range *refs {
		switch i := r.(type) {
		case *ssa.DebugRef:
		case *ssa.Call:
			if i.Call.Value != mc {
				return false
			}
		case *ssa.Defer:
			if i.Call.Value != mc {
				return false
			}
		default:
			return false
		}
	}
	return true
}

// rootOf: id term of the allocation an address is derived from; "" when unknown; freshRoot when
// the object is created later than the current program point (inside the loop / callee).
func (v *VC) rootOf(x ssa.Value) string {
	switch a := x.(type) {
	case *ssa.Alloc, *ssa.MakeMap:
		if id, ok := v.allocID[a]; ok {
			return id
		}
		return freshRoot
	case *ssa.FieldAddr:
		return v.rootOf(a.X)
	case *ssa.IndexAddr:
		return v.rootOf(a.X)
	case *ssa.Slice:
		return v.rootOf(a.X)
	case *ssa.FreeVar:
		return v.fvRoot[a]
	}
	return ""
}
