package main

import (
	"fmt"
	"go/constant"
	"go/types"
	"sort"
	"strconv"
	"strings"

	"golang.org/x/tools/go/ssa"
)

// SpecEnv is the environment a contract expression is evaluated in.
type SpecEnv struct {
	vars   map[string]TV
	addr   map[string]ssa.Value // address-taken locals: name -> cell
	heap   *Heap
	old    *SpecEnv
	before map[string]TV
	loopHeap *Heap // heap on entry of the loop whose invariant is being evaluated (atloop)
	bound  map[string]TV
	fn     *ssa.Function
	outOfScope func(name string) (TV, bool) // a local of the function that is not in scope at this point
	witness bool // goal position: offer program variables as witnesses of integer existentials
}

var tInt = types.Typ[types.Int]
var tBool = types.Typ[types.Bool]
var tString = types.Typ[types.String]

type specErr struct{ msg string }

func specPanic(f string, a ...any) { panic(specErr{fmt.Sprintf(f, a...)}) }

func (v *VC) evalClause(c Clause, env *SpecEnv) (term string, err error) {
	defer func() {
		if r := recover(); r != nil {
			if se, ok := r.(specErr); ok {
				err = fmt.Errorf("%s:%d: %s (in %q)", c.File, c.Line, se.msg, c.Src)
				return
			}
			panic(r)
		}
	}()
	e, perr := ParseSpec(c.Src)
	if perr != nil {
		return "", fmt.Errorf("%s:%d: %v", c.File, c.Line, perr)
	}
	tv := v.ev(e, env)
	return tv.T, nil
}

// evalSpec evaluates and records a broken contract as a failed obligation (never silently).
func (v *VC) evalSpec(c Clause, env *SpecEnv) string {
	t, err := v.evalClause(c, env)
	if err != nil {
		dup := false
		for _, e := range v.specErrors {
			if e == err.Error() {
				dup = true
			}
		}
		if !dup {
			v.specErrors = append(v.specErrors, err.Error())
		}
		return "false"
	}
	return t
}

func (v *VC) sortTV(tv TV) string {
	if tv.Typ == nil {
		return tv.Sort
	}
	return v.sortOf(tv.Typ)
}

func zeroOfSort(s string) string {
	switch s {
	case "Int":
		return "0"
	case "Bool":
		return "false"
	case "Str":
		return "str_empty"
	case "Ptr":
		return "nilp"
	case "Slice":
		return "nil_slice"
	case "Iface":
		return "inil"
	}
	return "nilp"
}

func specSort(tn string) (string, types.Type) {
	switch tn {
	case "int":
		return "Int", tInt
	case "string":
		return "Str", tString
	case "bool":
		return "Bool", tBool
	}
	return tn, nil
}

func (v *VC) lookupPkgMember(fn *ssa.Function, pkgName, name string) (TV, bool) {
	if fn == nil || fn.Pkg == nil {
		return TV{}, false
	}
	var tp *types.Package
	if pkgName == "" {
		tp = fn.Pkg.Pkg
	} else {
		for _, imp := range fn.Pkg.Pkg.Imports() {
			if imp.Name() == pkgName {
				tp = imp
			}
		}
		if tp == nil {
			// allow referring to any loaded package by name
			for _, p := range v.P.prog.AllPackages() {
				if p.Pkg.Name() == pkgName {
					tp = p.Pkg
					break
				}
			}
		}
	}
	if tp == nil {
		return TV{}, false
	}
	obj := tp.Scope().Lookup(name)
	switch o := obj.(type) {
	case *types.Const:
		switch o.Val().Kind() {
		case constant.Int:
			s := o.Val().ExactString()
			if strings.HasPrefix(s, "-") {
				s = "(- " + s[1:] + ")"
			}
			return TV{T: s, Typ: o.Type()}, true
		case constant.Bool:
			return TV{T: fmt.Sprint(constant.BoolVal(o.Val())), Typ: tBool}, true
		case constant.String:
			return TV{T: v.strLit(constant.StringVal(o.Val())), Typ: tString}, true
		}
	case *types.Var:
		if sp := v.P.prog.Package(tp); sp != nil {
			if gl, ok := sp.Members[name].(*ssa.Global); ok {
				return TV{T: v.globalValue(gl), Typ: o.Type()}, true
			}
		}
		// global of a package without SSA: immutable symbolic constant
		n := "gv_" + sanitize(tp.Name()+"_"+name)
		v.declGlobalConst(n, o.Type(), tp.Name()+"."+name)
		return TV{T: n, Typ: o.Type()}, true
	}
	return TV{}, false
}

func (v *VC) ev(e SExpr, env *SpecEnv) TV {
	switch x := e.(type) {
	case SInt:
		return TV{T: x.V, Typ: tInt}
	case SBool:
		return TV{T: fmt.Sprint(x.V), Typ: tBool}
	case SStr:
		return TV{T: v.strLit(x.V), Typ: tString}
	case SNil:
		return TV{T: "nilp", Typ: types.Typ[types.UntypedNil]}
	case SIdent:
		if tv, ok := env.bound[x.Name]; ok {
			return tv
		}
		if cell, ok := env.addr[x.Name]; ok {
			et := cell.Type().Underlying().(*types.Pointer).Elem()
			if a, isAlloc := cell.(*ssa.Alloc); isAlloc && a.Parent() == v.fn {
				if sv := constCellValue(a); sv != nil {
					return TV{T: v.val(sv), Typ: et}
				}
			}
			return TV{T: v.load(et, v.val(cell), env.heap), Typ: et}
		}
		if tv, ok := env.vars[x.Name]; ok {
			return tv
		}
		if srt, ok := v.P.db.Ghosts[x.Name]; ok {
			key := "ghost:" + x.Name
			n := v.heapGet(env.heap, key, "RAW:"+srt)
			var typ types.Type
			if srt == "Bool" {
				typ = tBool
			} else if srt == "Int" {
				typ = tInt
			}
			return TV{T: n, Typ: typ, Sort: srt}
		}
		if c, ok := v.P.db.Consts[x.Name]; ok {
			return TV{T: c, Typ: tInt}
		}
		if tv, ok := v.lookupPkgMember(env.fn, "", x.Name); ok {
			return tv
		}
		if env.outOfScope != nil {
			if tv, ok := env.outOfScope(x.Name); ok {
				return tv
			}
		}
		specPanic("unknown identifier %s", x.Name)
	case SUnary:
		a := v.ev(x.X, env)
		if x.Op == "!" {
			return TV{T: "(not " + a.T + ")", Typ: tBool}
		}
		return TV{T: "(- " + a.T + ")", Typ: a.Typ}
	case SBinary:
		if x.Op == "in" {
			k := v.ev(x.L, env)
			m := v.ev(x.R, env)
			mt, ok := m.Typ.Underlying().(*types.Map)
			if !ok {
				specPanic("'in' needs a map on the right")
			}
			dk, _, ks, _ := v.mapKeys(mt)
			h := v.heapGet(env.heap, dk, fmt.Sprintf("RAW:(Array Ptr (Array %s Bool))", ks))
			return TV{T: fmt.Sprintf("(and (not (= %s nilp)) (select (select %s %s) %s))", m.T, h, m.T, k.T), Typ: tBool}
		}
		l := v.ev(x.L, env)
		r := v.ev(x.R, env)
		if _, isNil := x.R.(SNil); isNil {
			r.T = zeroOfSort(v.sortTV(l))
			if l.Typ != nil {
				r.T = v.zero(l.Typ)
			}
		}
		if _, isNil := x.L.(SNil); isNil {
			l.T = zeroOfSort(v.sortTV(r))
		}
		op := map[string]string{"&&": "and", "||": "or", "==>": "=>", "<==>": "=", "==": "=", "<": "<", "<=": "<=", ">": ">", ">=": ">=", "+": "+", "-": "-", "*": "*", "/": "div", "%": "mod"}[x.Op]
		isStr := v.sortTV(l) == "Str"
		switch x.Op {
		case "!=":
			return TV{T: fmt.Sprintf("(not (= %s %s))", l.T, r.T), Typ: tBool}
		case "+":
			if isStr {
				v.useStrCat()
				return TV{T: fmt.Sprintf("(str.cat %s %s)", l.T, r.T), Typ: tString}
			}
			return TV{T: fmt.Sprintf("(+ %s %s)", l.T, r.T), Typ: tInt}
		case "-", "*", "/", "%":
			return TV{T: fmt.Sprintf("(%s %s %s)", op, l.T, r.T), Typ: tInt}
		case "<", "<=", ">", ">=":
			if isStr {
				v.useStrLt()
				switch x.Op {
				case "<":
					return TV{T: fmt.Sprintf("(str.lt %s %s)", l.T, r.T), Typ: tBool}
				case "<=":
					return TV{T: fmt.Sprintf("(not (str.lt %s %s))", r.T, l.T), Typ: tBool}
				case ">":
					return TV{T: fmt.Sprintf("(str.lt %s %s)", r.T, l.T), Typ: tBool}
				default:
					return TV{T: fmt.Sprintf("(not (str.lt %s %s))", l.T, r.T), Typ: tBool}
				}
			}
		}
		return TV{T: fmt.Sprintf("(%s %s %s)", op, l.T, r.T), Typ: tBool}
	case SField:
		if id, ok := x.X.(SIdent); ok {
			// package-qualified name?
			_, isBound := env.bound[id.Name]
			_, isVar := env.vars[id.Name]
			_, isAddr := env.addr[id.Name]
			if !isBound && !isVar && !isAddr {
				if tv, ok := v.lookupPkgMember(env.fn, id.Name, x.Name); ok {
					return tv
				}
			}
		}
		b := v.ev(x.X, env)
		if b.Typ == nil {
			specPanic("field %s of untyped term", x.Name)
		}
		return v.evField(b, x.Name, env)
	case SIndex:
		// an addressable array variable: elements live in the element heap at elm(&arr, i)
		if id, ok := x.X.(SIdent); ok {
			if _, isBound := env.bound[id.Name]; !isBound {
				if cell, ok := env.addr[id.Name]; ok {
					if arr, ok := cell.Type().Underlying().(*types.Pointer).Elem().Underlying().(*types.Array); ok {
						i := v.ev(x.I, env)
						return TV{T: v.load(arr.Elem(), fmt.Sprintf("(elm %s %s)", v.val(cell), i.T), env.heap), Typ: arr.Elem()}
					}
				}
			}
		}
		b := v.ev(x.X, env)
		i := v.ev(x.I, env)
		if b.Typ == nil {
			specPanic("index of untyped term")
		}
		switch u := b.Typ.Underlying().(type) {
		case *types.Slice:
			return TV{T: v.load(u.Elem(), fmt.Sprintf("(selem %s %s)", b.T, i.T), env.heap), Typ: u.Elem()}
		case *types.Map:
			_, vk, ks, vs := v.mapKeys(u)
			h := v.heapGet(env.heap, vk, fmt.Sprintf("RAW:(Array Ptr (Array %s %s))", ks, vs))
			return TV{T: fmt.Sprintf("(select (select %s %s) %s)", h, b.T, i.T), Typ: u.Elem()}
		case *types.Array:
			return TV{T: fmt.Sprintf("(select %s %s)", b.T, i.T), Typ: u.Elem()}
		case *types.Pointer:
			if arr, ok := u.Elem().Underlying().(*types.Array); ok {
				return TV{T: v.load(arr.Elem(), fmt.Sprintf("(elm %s %s)", b.T, i.T), env.heap), Typ: arr.Elem()}
			}
		case *types.Basic:
			if u.Info()&types.IsString != 0 {
				v.useStrAt()
				return TV{T: fmt.Sprintf("(str.at %s %s)", b.T, i.T), Typ: types.Typ[types.Uint8]}
			}
		}
		specPanic("index of non-slice/map")
	case SCall:
		return v.evCall(x, env)
	case SMethod:
		return v.evMethod(x, env)
	case SQuant:
		ne := *env
		ne.bound = map[string]TV{}
		for k, b := range env.bound {
			ne.bound[k] = b
		}
		var decl []string
		for i, n := range x.Vars {
			qn := "q_" + n
			srt, typ := specSort(x.Types[i])
			if typ == nil {
				if gt := v.lookupGoType(env.fn, x.Types[i]); gt != nil {
					typ = gt
					srt = v.sortOf(gt)
				}
			}
			ne.bound[n] = TV{T: qn, Typ: typ, Sort: srt}
			decl = append(decl, fmt.Sprintf("(%s %s)", qn, srt))
		}
		body := v.ev(x.Body, &ne)
		q := "exists"
		if x.Forall {
			q = "forall"
		}
		res := fmt.Sprintf("(%s (%s) %s)", q, strings.Join(decl, " "), body.T)
		if !x.Forall && len(x.Vars) == 1 && x.Types[0] == "int" && env.witness {
			// equivalent formulation that offers the program's own integer variables as witnesses
			var names []string
			for n, tv := range env.vars {
				if tv.Typ != nil && v.sortOf(tv.Typ) == "Int" && !strings.HasPrefix(n, "arg") && !strings.HasPrefix(n, "result") {
					names = append(names, n)
				}
			}
			sort.Strings(names)
			if len(names) <= 8 {
				alts := []string{res}
				for _, n := range names {
					we := *env
					we.witness = false
					we.bound = map[string]TV{}
					for k, b := range env.bound {
						we.bound[k] = b
					}
					we.bound[x.Vars[0]] = env.vars[n]
					alts = append(alts, v.ev(x.Body, &we).T)
				}
				res = "(or " + strings.Join(alts, " ") + ")"
			}
		}
		return TV{T: res, Typ: tBool}
	}
	specPanic("unhandled spec node %T", e)
	return TV{}
}

func (v *VC) evField(b TV, name string, env *SpecEnv) TV {
	t := b.Typ
	if p, ok := t.Underlying().(*types.Pointer); ok {
		if st, ok := p.Elem().Underlying().(*types.Struct); ok {
			for i := 0; i < st.NumFields(); i++ {
				f := st.Field(i)
				if f.Name() == name {
					return TV{T: v.load(f.Type(), fmt.Sprintf("(fld %s %d)", b.T, i), env.heap), Typ: f.Type()}
				}
			}
			// promoted through embedded fields
			for i := 0; i < st.NumFields(); i++ {
				f := st.Field(i)
				if f.Embedded() {
					var inner TV
					if _, isPtr := f.Type().Underlying().(*types.Pointer); isPtr {
						inner = TV{T: v.load(f.Type(), fmt.Sprintf("(fld %s %d)", b.T, i), env.heap), Typ: f.Type()}
					} else if _, isSt := f.Type().Underlying().(*types.Struct); isSt {
						inner = TV{T: fmt.Sprintf("(fld %s %d)", b.T, i), Typ: types.NewPointer(f.Type())}
					} else {
						continue
					}
					if r, ok := v.tryField(inner, name, env); ok {
						return r
					}
				}
			}
		}
	}
	if st, ok := t.Underlying().(*types.Struct); ok {
		s := v.sortOf(t)
		for i := 0; i < st.NumFields(); i++ {
			if st.Field(i).Name() == name {
				return TV{T: fmt.Sprintf("(%s-f%d %s)", s, i, b.T), Typ: st.Field(i).Type()}
			}
		}
	}
	specPanic("no field %s in %s", name, t.String())
	return TV{}
}

func (v *VC) tryField(b TV, name string, env *SpecEnv) (r TV, ok bool) {
	defer func() {
		if x := recover(); x != nil {
			if _, is := x.(specErr); is {
				ok = false
				return
			}
			panic(x)
		}
	}()
	return v.evField(b, name, env), true
}

func (v *VC) evCall(x SCall, env *SpecEnv) TV {
	switch x.Fn {
	case "len":
		a := v.ev(x.Args[0], env)
		if a.Typ == nil {
			if a.Sort == "Slice" {
				return TV{T: "(s-len " + a.T + ")", Typ: tInt}
			}
			return TV{T: "(strlen " + a.T + ")", Typ: tInt}
		}
		switch u := a.Typ.Underlying().(type) {
		case *types.Slice:
			return TV{T: "(s-len " + a.T + ")", Typ: tInt}
		case *types.Map:
			dk, _, ks, _ := v.mapKeys(u)
			h := v.heapGet(env.heap, dk, fmt.Sprintf("RAW:(Array Ptr (Array %s Bool))", ks))
			return TV{T: v.mapLen(u, fmt.Sprintf("(select %s %s)", h, a.T)), Typ: tInt}
		case *types.Array:
			return TV{T: fmt.Sprint(u.Len()), Typ: tInt}
		default:
			return TV{T: "(strlen " + a.T + ")", Typ: tInt}
		}
	case "cap":
		a := v.ev(x.Args[0], env)
		return TV{T: "(s-cap " + a.T + ")", Typ: tInt}
	case "old":
		if env.old == nil {
			specPanic("old() not available here")
		}
		oe := *env.old
		oe.bound = env.bound
		return v.ev(x.Args[0], &oe)
	case "atentry":
		// atentry(e): e with the current values of variables, read in the heap of function entry
		if env.old == nil || env.old.heap == nil {
			specPanic("atentry() not available here")
		}
		ne := *env
		ne.heap = env.old.heap
		return v.ev(x.Args[0], &ne)
	case "atloop":
		// atloop(e): e with the current values of variables, read in the heap the loop was entered with
		if env.loopHeap == nil {
			specPanic("atloop() is only available in a loop invariant")
		}
		ne := *env
		ne.heap = env.loopHeap
		return v.ev(x.Args[0], &ne)
	case "before":
		id, ok := x.Args[0].(SIdent)
		if !ok {
			specPanic("before() takes a loop-carried variable")
		}
		tv, ok := env.before[id.Name]
		if !ok {
			specPanic("before(): not a loop-carried variable: %s", id.Name)
		}
		return tv
	case "f2i":
		// the integer a float converts to (same uninterpreted function the generator uses for int64(f))
		a := v.ev(x.Args[0], env)
		v.features["f2i"] = true
		return TV{T: fmt.Sprintf("(f2i %s)", a.T), Typ: tInt}
	case "wrap32":
		a := v.ev(x.Args[0], env)
		return TV{T: fmt.Sprintf("(mod %s 4294967296)", a.T), Typ: tInt}
	case "wrap64":
		a := v.ev(x.Args[0], env)
		return TV{T: fmt.Sprintf("(mod %s %s)", a.T, W64), Typ: tInt}
	case "int", "int64", "uint64", "uint32", "int32", "uint8", "uint":
		return v.ev(x.Args[0], env)
	case "ite":
		c := v.ev(x.Args[0], env)
		a := v.ev(x.Args[1], env)
		b := v.ev(x.Args[2], env)
		return TV{T: fmt.Sprintf("(ite %s %s %s)", c.T, a.T, b.T), Typ: a.Typ, Sort: a.Sort}
	case "typeis":
		// typeis(x, "pkg.T"): dynamic type test on an interface value
		a := v.ev(x.Args[0], env)
		s, ok := x.Args[1].(SStr)
		if !ok {
			specPanic("typeis needs a string type name")
		}
		if env.fn != nil {
			if sig := env.fn.Signature; sig != nil {
				for k := 0; k < sig.TypeParams().Len(); k++ {
					if tp := sig.TypeParams().At(k); tp.Obj().Name() == s.V {
						return TV{T: v.typeParamTest(tp, a.T), Typ: tBool}
					}
				}
			}
			if tps := env.fn.TypeParams(); tps != nil {
				for k := 0; k < tps.Len(); k++ {
					if tp := tps.At(k); tp.Obj().Name() == s.V {
						return TV{T: v.typeParamTest(tp, a.T), Typ: tBool}
					}
				}
			}
		}
		if strings.HasPrefix(s.V, "*") {
			return TV{T: fmt.Sprintf("(and ((_ is iface-p) %s) (= (ip-type %s) %d))", a.T, a.T, v.typeIDByName(s.V)), Typ: tBool}
		}
		return TV{T: fmt.Sprintf("(= (iface-tid %s) %d)", a.T, v.typeIDByName(s.V)), Typ: tBool}
	case "isnil":
		a := v.ev(x.Args[0], env)
		return TV{T: fmt.Sprintf("(= %s %s)", a.T, zeroOfSort(v.sortTV(a))), Typ: tBool}
	case "sel":
		a := v.ev(x.Args[0], env)
		i := v.ev(x.Args[1], env)
		_, rs := arraySorts(a.Sort)
		tv := TV{T: fmt.Sprintf("(select %s %s)", a.T, i.T), Sort: rs}
		switch rs {
		case "Int":
			tv.Typ = tInt
		case "Bool":
			tv.Typ = tBool
		case "Str":
			tv.Typ = tString
		}
		return tv
	case "upd":
		a := v.ev(x.Args[0], env)
		i := v.ev(x.Args[1], env)
		val := v.ev(x.Args[2], env)
		if _, isNil := x.Args[2].(SNil); isNil {
			_, rs := arraySorts(a.Sort)
			val.T = zeroOfSort(rs)
		}
		return TV{T: fmt.Sprintf("(store %s %s %s)", a.T, i.T, val.T), Sort: a.Sort}
	case "implements":
		a := v.ev(x.Args[0], env)
		s, ok := x.Args[1].(SStr)
		if !ok {
			specPanic("implements needs an interface type name")
		}
		v.features["implements"] = true
		return TV{T: fmt.Sprintf("(and (not (= %s inil)) (implements (iface-tid %s) %d))", a.T, a.T, v.typeIDByName(s.V)), Typ: tBool}
	case "strsub":
		a := v.ev(x.Args[0], env)
		lo := v.ev(x.Args[1], env)
		hi := v.ev(x.Args[2], env)
		v.useStrSub()
		return TV{T: fmt.Sprintf("(str.sub %s %s %s)", a.T, lo.T, hi.T), Typ: tString}
	case "cast":
		// cast(x, "*pkg.T"): the pointer stored in interface value x, viewed as *pkg.T
		a := v.ev(x.Args[0], env)
		tn, ok := x.Args[1].(SStr)
		if !ok {
			specPanic("cast needs a type name")
		}
		gt := v.lookupGoType(env.fn, tn.V)
		if gt == nil {
			specPanic("cast: unknown type %s", tn.V)
		}
		if v.sortTV(a) == "Iface" {
			return TV{T: "(ip-val " + a.T + ")", Typ: gt}
		}
		return TV{T: a.T, Typ: gt}
	case "fresh":
		// fresh(x): x was allocated during the call this postcondition describes
		a := v.ev(x.Args[0], env)
		if env.old == nil {
			specPanic("fresh() is only meaningful in a postcondition")
		}
		return TV{T: fmt.Sprintf("(> (root %s) %s)", ptrOf(v.sortTV(a), a.T), v.clock(env.old.heap)), Typ: tBool}
	case "bytestr":
		// bytestr(b): the string a byte slice was converted from / holds (abstract content)
		a := v.ev(x.Args[0], env)
		v.useBytesOf()
		return TV{T: "(bytes.str " + a.T + ")", Typ: tString}
	case "box":
		// box(x): the interface value holding struct value x (what an implicit conversion builds)
		a := v.ev(x.Args[0], env)
		if a.Typ == nil {
			specPanic("box needs a typed struct value")
		}
		return TV{T: v.makeIface(a.Typ, a.T), Sort: "Iface"}
	case "visited":
		// visited(k): key k has been produced by the map range loop of this function (the only one, or
		// the one whose key sort matches)
		a := v.ev(x.Args[0], env)
		want := v.sortTV(a)
		var found string
		for hk, nm := range env.heap.m {
			if strings.HasPrefix(hk, "ghost:vis_") && v.heapSortOf(hk) == fmt.Sprintf("(Array %s Bool)", want) {
				if found != "" && found != nm {
					specPanic("visited(): more than one map range loop with this key sort is in scope")
				}
				found = nm
			}
		}
		if found == "" {
			specPanic("visited(): no map range loop in scope")
		}
		return TV{T: fmt.Sprintf("(select %s %s)", found, a.T), Typ: tBool}
	case "ifacestr":
		// ifacestr(x): the string stored in interface value x (meaningful when x holds a string)
		a := v.ev(x.Args[0], env)
		return TV{T: "(is-val " + a.T + ")", Typ: tString}
	case "ifaceptr":
		a := v.ev(x.Args[0], env)
		return TV{T: "(iface-ptr " + a.T + ")", Sort: "Ptr"}
	case "baseof":
		a := v.ev(x.Args[0], env)
		return TV{T: "(s-base " + a.T + ")", Sort: "Ptr"}
	case "rootof":
		a := v.ev(x.Args[0], env)
		return TV{T: "(root " + ptrOf(v.sortTV(a), a.T) + ")", Typ: tInt}
	}
	if d, ok := v.P.db.UFs[x.Fn]; ok {
		if len(d.Args) != len(x.Args) {
			specPanic("uf %s: wrong arity", x.Fn)
		}
		var args []string
		for k, a := range x.Args {
			tv := v.ev(a, env)
			if _, isNil := a.(SNil); isNil {
				tv.T = zeroOfSort(d.Args[k])
			}
			if s := v.sortTV(tv); s != d.Args[k] && tv.Typ != nil && tv.Typ != types.Typ[types.UntypedNil] {
				specPanic("uf %s: argument %d has sort %s, want %s", x.Fn, k, s, d.Args[k])
			}
			args = append(args, tv.T)
		}
		v.useUF(d)
		t := d.Name
		if len(args) > 0 {
			t = fmt.Sprintf("(%s %s)", d.Name, strings.Join(args, " "))
		}
		_, typ := specSort(strings.ToLower(d.Res))
		if d.Res == "Int" {
			typ = tInt
		} else if d.Res == "Bool" {
			typ = tBool
		} else if d.Res == "Str" {
			typ = tString
		} else {
			typ = nil
		}
		return TV{T: t, Typ: typ, Sort: d.Res}
	}
	if m, ok := v.P.db.Macros[x.Fn]; ok {
		if len(m.Params) != len(x.Args) {
			specPanic("def %s: wrong arity", x.Fn)
		}
		ne := *env
		ne.bound = map[string]TV{}
		for k, b := range env.bound {
			ne.bound[k] = b
		}
		for k, a := range x.Args {
			ne.bound[m.Params[k]] = v.ev(a, env)
		}
		body, err := ParseSpec(m.Body)
		if err != nil {
			specPanic("def %s: %v", x.Fn, err)
		}
		return v.ev(body, &ne)
	}
	// in-package function declared pure
	if env.fn != nil && env.fn.Pkg != nil {
		fname, resIdx := x.Fn, 0
		if i := strings.Index(fname, "#"); i > 0 {
			n, err := strconv.Atoi(fname[i+1:])
			if err != nil {
				specPanic("bad result selector in %s", fname)
			}
			fname, resIdx = fname[:i], n
		}
		if f, ok := env.fn.Pkg.Members[fname].(*ssa.Function); ok {
			if ct := v.P.contractFor(f); ct != nil && ct.Pure {
				var args []string
				for _, a := range x.Args {
					args = append(args, v.ev(a, env).T)
				}
				r := v.ufApp("uf_"+sanitize(fnKey(f)), f.Signature, "", args)
				if resIdx >= len(r) {
					specPanic("result selector out of range in %s", x.Fn)
				}
				return TV{T: r[resIdx], Typ: f.Signature.Results().At(resIdx).Type()}
			}
		}
	}
	specPanic("unknown function %s", x.Fn)
	return TV{}
}

func (v *VC) evMethod(x SMethod, env *SpecEnv) TV {
	// M#k selects the k-th result of a multi-result pure function
	resIdx := 0
	if i := strings.Index(x.Name, "#"); i > 0 {
		n, err := strconv.Atoi(x.Name[i+1:])
		if err != nil {
			specPanic("bad result selector in %s", x.Name)
		}
		resIdx = n
		x.Name = x.Name[:i]
	}
	// pkg.F(args): a package-level function with a pure contract
	if id, ok := x.X.(SIdent); ok {
		_, isBound := env.bound[id.Name]
		_, isVar := env.vars[id.Name]
		_, isAddr := env.addr[id.Name]
		if !isBound && !isVar && !isAddr && env.fn != nil && env.fn.Pkg != nil {
			for _, imp := range env.fn.Pkg.Pkg.Imports() {
				if imp.Name() != id.Name {
					continue
				}
				fo, ok := imp.Scope().Lookup(x.Name).(*types.Func)
				if !ok {
					continue
				}
				f := v.P.prog.FuncValue(fo)
				if f == nil {
					specPanic("function %s.%s is not part of the loaded program", id.Name, x.Name)
				}
				ct := v.P.contractFor(f)
				if ct == nil || !ct.Pure {
					specPanic("function not declared pure: %s", fnKey(f))
				}
				var args []string
				for _, a := range x.Args {
					args = append(args, v.ev(a, env).T)
				}
				r := v.ufApp("uf_"+sanitize(fnKey(f)), f.Signature, "", args)
				return TV{T: r[resIdx], Typ: f.Signature.Results().At(resIdx).Type()}
			}
		}
	}
	recv := v.ev(x.X, env)
	if recv.Typ == nil {
		specPanic("method %s on untyped term", x.Name)
	}
	var pkg *types.Package
	if env.fn != nil && env.fn.Pkg != nil {
		pkg = env.fn.Pkg.Pkg
	}
	ms := types.NewMethodSet(recv.Typ)
	sel := ms.Lookup(pkg, x.Name)
	if sel == nil {
		specPanic("no method %s on %s", x.Name, recv.Typ.String())
	}
	sig := sel.Type().(*types.Signature)
	var args []string
	for _, a := range x.Args {
		args = append(args, v.ev(a, env).T)
	}
	if _, isIface := recv.Typ.Underlying().(*types.Interface); isIface {
		key := "iface:" + types.TypeString(recv.Typ, pkgQual) + "." + x.Name
		ct := v.P.db.Contracts[key]
		if ct == nil || !ct.Pure {
			specPanic("method not declared pure: %s", key)
		}
		ct.Used = true
		v.note("pure interface method (result is a function of receiver and arguments): %s", key)
		r := v.ufApp("uf_"+sanitize(key), sig, "Iface", append([]string{recv.T}, args...))
		v.ufRangeAxiom("uf_"+sanitize(key), sig, "Iface")
		return TV{T: r[resIdx], Typ: sig.Results().At(resIdx).Type()}
	}
	fnObj := sel.Obj().(*types.Func)
	f := v.P.prog.FuncValue(fnObj)
	if f != nil {
		if ct := v.P.contractFor(f); ct != nil && ct.Pure {
			recvSort := v.sortOf(recv.Typ)
			r := v.ufApp("uf_"+sanitize(fnKey(f)), sig, recvSort, append([]string{recv.T}, args...))
			return TV{T: r[resIdx], Typ: sig.Results().At(resIdx).Type()}
		}
	}
	specPanic("method not pure: %s.%s", recv.Typ.String(), x.Name)
	return TV{}
}

// lookupGoType resolves "T" or "pkg.T" (optionally with a leading *) in the scope of fn's package.
func (v *VC) lookupGoType(fn *ssa.Function, name string) types.Type {
	if fn == nil || fn.Pkg == nil {
		return nil
	}
	if strings.HasPrefix(name, "[]") {
		if et := v.lookupGoType(fn, name[2:]); et != nil {
			return types.NewSlice(et)
		}
		return nil
	}
	star := strings.HasPrefix(name, "*")
	name = strings.TrimPrefix(name, "*")
	if !strings.Contains(name, ".") {
		if tn, ok := types.Universe.Lookup(name).(*types.TypeName); ok {
			if star {
				return types.NewPointer(tn.Type())
			}
			return tn.Type()
		}
	}
	var tp *types.Package = fn.Pkg.Pkg
	tn := name
	if i := strings.Index(name, "."); i > 0 {
		pn := name[:i]
		tn = name[i+1:]
		tp = nil
		for _, imp := range fn.Pkg.Pkg.Imports() {
			if imp.Name() == pn {
				tp = imp
			}
		}
		if tp == nil {
			for _, p := range v.P.prog.AllPackages() {
				if p.Pkg.Name() == pn {
					tp = p.Pkg
					break
				}
			}
		}
	}
	if tp == nil {
		return nil
	}
	o, ok := tp.Scope().Lookup(tn).(*types.TypeName)
	if !ok {
		return nil
	}
	var t types.Type = o.Type()
	if star {
		t = types.NewPointer(t)
	}
	return t
}

// arraySorts splits "(Array K V)" into K and V.
func arraySorts(s string) (string, string) {
	s = strings.TrimSpace(s)
	if !strings.HasPrefix(s, "(Array ") {
		return "", ""
	}
	body := strings.TrimSuffix(strings.TrimPrefix(s, "(Array "), ")")
	depth := 0
	for i := 0; i < len(body); i++ {
		switch body[i] {
		case '(':
			depth++
		case ')':
			depth--
		case ' ':
			if depth == 0 {
				return body[:i], strings.TrimSpace(body[i+1:])
			}
		}
	}
	return "", ""
}

func (v *VC) typeIDByName(name string) int {
	// match by suffix against known types of the program
	for k, id := range v.typeIDs {
		if k == name || strings.HasSuffix(k, "/"+name) || strings.HasSuffix(k, "/"+strings.TrimPrefix(name, "*")) && strings.HasPrefix(name, "*") && strings.HasPrefix(k, "*") {
			return id
		}
	}
	// resolve through loaded packages
	star := strings.HasPrefix(name, "*")
	base := strings.TrimPrefix(name, "*")
	if i := strings.LastIndex(base, "."); i > 0 {
		pn, tn := base[:i], base[i+1:]
		for _, p := range v.P.prog.AllPackages() {
			if p.Pkg.Name() == pn || p.Pkg.Path() == pn {
				if o := p.Pkg.Scope().Lookup(tn); o != nil {
					var t types.Type = o.Type()
					if star {
						t = types.NewPointer(t)
					}
					return v.typeID(t)
				}
			}
		}
	}
	specPanic("typeis: unknown type %s", name)
	return 0
}
