package main

import (
	"fmt"
	"go/ast"
	"go/token"
	"go/types"
	"sort"
	"strings"

	"golang.org/x/tools/go/ssa"
)

func newShared() *shared {
	return &shared{body: &strings.Builder{}, heapKeys: map[string]string{}, structs: map[string]*types.Struct{}, structNames: map[string]string{}, strLits: map[string]string{},
		globals: map[string]string{}, entryHeap: map[string]string{}, assumptions: map[string]bool{}, ufs: map[string]string{},
		typeIDs: map[string]int{}, kindCount: map[string]int{}, sentinels: map[string]bool{}, calls: map[string]bool{},
		globalConsts: map[string]string{}, features: map[string]bool{}}
}

func NewVC(P *Program, fn *ssa.Function) *VC {
	v := &VC{shared: newShared(), P: P, fn: fn}
	v.init()
	v.contract = P.contractFor(fn)
	if v.contract == nil {
		v.contract = &Contract{Loops: map[int]*LoopSpec{}}
	}
	v.epochs = nil
	v.newEpoch(&epochInfo{kind: "entry"})
	return v
}

func (v *VC) init() {
	v.names = map[ssa.Value]string{}
	v.closures = map[ssa.Value]*ssa.MakeClosure{}
	v.guard = map[*ssa.BasicBlock]string{}
	v.heapOut = map[*ssa.BasicBlock]*Heap{}
	v.hdrBefore = map[*ssa.BasicBlock]map[string]TV{}
	v.hdrLoopHeap = map[*ssa.BasicBlock]*Heap{}
	v.hdrDecr = map[*ssa.BasicBlock]string{}
	v.varOut = map[*ssa.BasicBlock]map[string]ssa.Value{}
	v.addrOut = map[*ssa.BasicBlock]map[string]ssa.Value{}
	v.hdrVenv = map[*ssa.BasicBlock]map[string]ssa.Value{}
	v.hdrAenv = map[*ssa.BasicBlock]map[string]ssa.Value{}
	v.allocID = map[ssa.Value]string{}
	v.fvRoot = map[*ssa.FreeVar]string{}
}

func (v *VC) paramEnv(h *Heap, venv map[string]ssa.Value, aenv map[string]ssa.Value) *SpecEnv {
	env := &SpecEnv{vars: map[string]TV{}, addr: map[string]ssa.Value{}, heap: h, bound: map[string]TV{}, before: map[string]TV{}, fn: v.fn}
	for _, p := range v.fn.Params {
		env.vars[p.Name()] = TV{T: v.val(p), Typ: p.Type()}
	}
	for _, fv := range v.fn.FreeVars {
		// captured variable: a cell
		env.addr[fv.Name()] = fv
	}
	for n, x := range venv {
		env.vars[n] = TV{T: v.val(x), Typ: x.Type()}
	}
	for n, x := range aenv {
		env.addr[n] = x
	}
	return env
}

// Generate produces the verification conditions of the function under contract.
func (v *VC) Generate() {
	fn := v.fn
	v.analyzeLoops()
	order := v.topo()
	h := &Heap{m: map[string]string{}, epoch: 0}
	for _, p := range fn.Params {
		n := v.declare(p)
		v.assume("true", v.preFact(p.Type(), n))
	}
	for _, fv := range fn.FreeVars {
		n := v.declare(fv)
		v.assume("true", v.preFact(fv.Type(), n))
		v.assume("true", fmt.Sprintf("(not (= %s nilp))", n))
	}
	v.preEnv = v.paramEnv(h.clone(), nil, nil)
	v.preEnv.addr = map[string]ssa.Value{}
	for _, fv := range fn.FreeVars {
		v.preEnv.addr[fv.Name()] = fv
	}
	for _, r := range v.contract.Requires {
		v.emit("; requires %s", r.Src)
		v.assume("true", v.evalSpec(r, v.preEnv))
	}
	for _, r := range v.contract.Assumes {
		v.emit("; assumes %s", r.Src)
		v.assume("true", v.evalSpec(r, v.preEnv))
		v.note("input assumption of %s: %s", shortKey(fnKey(fn)), r.Src)
	}
	// the entry heap used by old() must see the same lazily created heap names
	h = v.preEnv.heap.clone()
	v.cover("cover:requires-satisfiable", "true", fn.Pos())
	v.guard[order[0]] = "true"
	for _, b := range order {
		v.genBlock(b, h)
	}
}

// findLocal looks for a source-level local variable of the function by name.
func (v *VC) findLocal(name string) (val ssa.Value, isAddr bool, ok bool) {
	for _, b := range v.fn.Blocks {
		for _, in := range b.Instrs {
			if d, isD := in.(*ssa.DebugRef); isD {
				if id, isId := d.Expr.(*ast.Ident); isId && id.Name == name {
					return d.X, d.IsAddr, true
				}
			}
			if a, isA := in.(*ssa.Alloc); isA && a.Comment == name {
				return a, true, true
			}
		}
	}
	return nil, false, false
}

func copyVals(m map[string]ssa.Value) map[string]ssa.Value {
	n := make(map[string]ssa.Value, len(m))
	for k, x := range m {
		n[k] = x
	}
	return n
}

func (v *VC) inlinable(callee *ssa.Function) bool {
	if callee.Blocks == nil {
		return false
	}
	for _, f := range v.inlStack {
		if f == callee {
			return false
		}
	}
	if len(v.inlStack) >= 6 {
		return false
	}
	n := 0
	for _, b := range callee.Blocks {
		n += len(b.Instrs)
		for _, s := range b.Succs {
			if s.Dominates(b) {
				return false // loop
			}
		}
		for _, in := range b.Instrs {
			switch in.(type) {
			case *ssa.Go, *ssa.Select, *ssa.Send:
				return false
			}
		}
	}
	return n <= 250
}

// GenerateInline generates the body of callee in the caller's context.
func (v *VC) GenerateInline(callee *ssa.Function, args []string, bindings []ssa.Value, g string, heap *Heap) []string {
	v.inlCount++
	c := &VC{shared: v.shared, P: v.P, fn: callee}
	c.init()
	c.pfx = fmt.Sprintf("i%d_", v.inlCount)
	c.inline = true
	c.contract = &Contract{Loops: map[int]*LoopSpec{}}
	if ct := v.P.contractFor(callee); ct != nil {
		c.contract = ct
	}
	for k, p := range callee.Params {
		c.names[p] = args[k]
	}
	for k, fv := range callee.FreeVars {
		c.names[fv] = v.val(bindings[k])
		c.fvRoot[fv] = v.rootOf(bindings[k])
	}
	c.analyzeLoops()
	v.inlStack = append(v.inlStack, callee)
	defer func() { v.inlStack = v.inlStack[:len(v.inlStack)-1] }()
	order := c.topo()
	c.guard[order[0]] = g
	v.emit("; >>> inline %s as %s", callee.String(), c.pfx)
	c.preEnv = c.paramEnv(heap.clone(), nil, nil)
	start := heap.clone()
	for _, b := range order {
		c.genBlock(b, start)
	}
	v.emit("; <<< end inline %s", c.pfx)
	nres := callee.Signature.Results().Len()
	out := make([]string, nres)
	if len(c.rets) == 0 {
		// callee never returns (panics): results arbitrary, path dead
		for k := 0; k < nres; k++ {
			nm := v.freshName("r")
			v.emit("(declare-const %s %s)", nm, v.sortOf(callee.Signature.Results().At(k).Type()))
			out[k] = nm
		}
		v.assume(g, "false")
		return out
	}
	for k := 0; k < nres; k++ {
		term := c.rets[len(c.rets)-1].vals[k]
		for r := len(c.rets) - 2; r >= 0; r-- {
			term = fmt.Sprintf("(ite %s %s %s)", c.rets[r].guard, c.rets[r].vals[k], term)
		}
		nm := fmt.Sprintf("v_%sret%d", c.pfx, k)
		v.emit("(define-fun %s () %s %s)", nm, v.sortOf(callee.Signature.Results().At(k).Type()), term)
		out[k] = nm
	}
	// paths of the caller continue only through a return of the callee
	var rg []string
	for _, r := range c.rets {
		rg = append(rg, r.guard)
	}
	v.assume(g, "(or "+strings.Join(rg, " ")+" false)")
	// merge heaps of the returns
	var conds []string
	var heaps []*Heap
	for _, r := range c.rets {
		conds = append(conds, r.guard)
		heaps = append(heaps, r.heap)
	}
	m := v.mergeHeaps(conds, heaps)
	heap.m = m.m
	heap.epoch = m.epoch
	return out
}

// mergeHeaps joins the stores of several incoming paths.
func (v *VC) mergeHeaps(conds []string, heaps []*Heap) *Heap {
	if len(heaps) == 1 {
		return heaps[0].clone()
	}
	out := &Heap{m: map[string]string{}}
	sameEpoch := true
	for _, h := range heaps {
		if h.epoch != heaps[0].epoch {
			sameEpoch = false
		}
	}
	if sameEpoch {
		out.epoch = heaps[0].epoch
	} else {
		var ps []int
		for _, h := range heaps {
			ps = append(ps, h.epoch)
		}
		out.epoch = v.newEpoch(&epochInfo{kind: "merge", conds: conds, parents: ps})
	}
	keys := map[string]bool{}
	for _, h := range heaps {
		for k := range h.m {
			keys[k] = true
		}
	}
	ks := make([]string, 0, len(keys))
	for k := range keys {
		ks = append(ks, k)
	}
	sort.Strings(ks)
	for _, k := range ks {
		var vers []string
		same := true
		for _, h := range heaps {
			n, ok := h.m[k]
			if !ok {
				n = v.resolve(k, h.epoch)
			}
			vers = append(vers, n)
			if n != vers[0] {
				same = false
			}
		}
		if same {
			out.m[k] = vers[0]
			continue
		}
		term := vers[len(vers)-1]
		for i := len(vers) - 2; i >= 0; i-- {
			term = fmt.Sprintf("(ite %s %s %s)", conds[i], vers[i], term)
		}
		v.heapSet(out, k, term)
	}
	return out
}

type loopMod struct {
	fieldConds map[string][]string // key -> cells written only as named struct fields (modifies fields)
	call    bool
	ghosts  bool
	ghostSet map[string]bool
	unknown map[string]bool
	known   map[string]map[string]bool
}

func (v *VC) leafKeys(t types.Type, f func(key, sort string)) {
	if st, ok := t.Underlying().(*types.Struct); ok {
		for i := 0; i < st.NumFields(); i++ {
			v.leafKeys(st.Field(i).Type(), f)
		}
		return
	}
	k, s := v.heapKey(t)
	f(k, s)
}

// modOfInstrs collects what a set of instructions may write (through inlinable callees too).
func (v *VC) modOf(fn *ssa.Function, blocks func(yield func(*ssa.BasicBlock)), root func(ssa.Value) string, m *loopMod, depth int) {
	add := func(t types.Type, r string) {
		v.leafKeys(t, func(k, s string) {
			v.registerKey(k, s)
			m.addRoot(k, r)
		})
	}
	blocks(func(b *ssa.BasicBlock) {
		for _, in := range b.Instrs {
			switch i := in.(type) {
			case *ssa.Store:
				add(i.Val.Type(), root(i.Addr))
			case *ssa.MapUpdate:
				dk, vk, _, _ := v.mapKeys(i.Map.Type().Underlying().(*types.Map))
				r := root(i.Map)
				m.addRoot(dk, r)
				m.addRoot(vk, r)
			case *ssa.Go, *ssa.Select, *ssa.Send:
				m.call = true
			case *ssa.UnOp:
				if i.Op == token.ARROW {
					m.call = true
				}
			case *ssa.Defer:
				// runs at function exit, not inside the loop
			case *ssa.MakeSlice, *ssa.Alloc:
				// writes only to the fresh object
			case *ssa.Next:
				if fn == v.fn {
					if k := v.visKey(i); k != "" {
						m.noteGhost(strings.TrimPrefix(k, "ghost:"))
					}
				}
			case *ssa.Call:
				v.modOfCall(fn, &i.Call, root, m, depth)
			}
		}
	})
}

func (v *VC) modOfCall(fn *ssa.Function, c *ssa.CallCommon, root func(ssa.Value) string, m *loopMod, depth int) {
	if bi, ok := c.Value.(*ssa.Builtin); ok {
		switch bi.Name() {
		case "append":
			et := c.Args[0].Type().Underlying().(*types.Slice).Elem()
			v.leafKeys(et, func(k, s string) { v.registerKey(k, s); m.unknown[k] = true })
		case "copy":
			if sl, ok := c.Args[0].Type().Underlying().(*types.Slice); ok {
				v.leafKeys(sl.Elem(), func(k, s string) { v.registerKey(k, s); m.unknown[k] = true })
			}
		case "delete", "clear":
			if mt, ok := c.Args[0].Type().Underlying().(*types.Map); ok {
				dk, vk, _, _ := v.mapKeys(mt)
				r := root(c.Args[0])
				m.addRoot(dk, r)
				m.addRoot(vk, r)
			}
		}
		return
	}
	if c.IsInvoke() {
		ct := v.P.db.Contracts[ifaceMethodKey(c)]
		if ct != nil {
			for _, gs := range ct.Sets {
				m.noteGhost(gs.Var)
			}
		}
		if ct != nil && ct.ModNothing {
			if len(ct.Sets) > 0 {
				m.ghosts = true
			}
			return
		}
		m.call = true
		if ct == nil {
			m.ghosts = true
		}
		return
	}
	var callee *ssa.Function
	var bindings []ssa.Value
	if sc := c.StaticCallee(); sc != nil {
		callee = sc
		if mc, ok := c.Value.(*ssa.MakeClosure); ok {
			bindings = mc.Bindings
		}
	} else if mc := v.closureOf(c.Value); mc != nil {
		callee = mc.Fn.(*ssa.Function)
		bindings = mc.Bindings
	}
	if callee == nil {
		m.call, m.ghosts = true, true
		return
	}
	if ct := v.P.contractFor(callee); ct != nil && !ct.Inline {
		for g := range v.P.ghostMod(callee, map[*ssa.Function]bool{}) {
			m.noteGhost(g)
			m.ghosts = true
		}
		if len(ct.Sets) > 0 {
			m.ghosts = true
		}
		if ct.ModNothing {
			return
		}
		if len(ct.Mods) > 0 {
			precise := true
			for _, cl := range ct.Mods {
				if len(cl.Fields) > 0 {
					continue
				}
				if len(cl.Kinds) == 0 {
					precise = false
				}
				for _, k := range cl.Kinds {
					if strings.HasPrefix(k, "!") {
						precise = false
					}
				}
			}
			if precise {
				for _, cl := range ct.Mods {
					for _, k := range cl.Kinds {
						m.unknown[k] = true
					}
					for _, f := range cl.Fields {
						mt := v.fieldMod(callee, f)
						if m.fieldConds == nil {
							m.fieldConds = map[string][]string{}
						}
						m.fieldConds[mt.fieldKey] = append(m.fieldConds[mt.fieldKey], mt.fieldCond)
					}
				}
				return
			}
		}
		m.call = true
		return
	}
	if depth < 4 && v.P.inRepo(callee) && v.inlinable(callee) {
		sub := func(x ssa.Value) string { return v.subRoot(x, callee, bindings, root) }
		inner := &loopMod{unknown: map[string]bool{}, known: map[string]map[string]bool{}}
		v.modOf(callee, func(y func(*ssa.BasicBlock)) {
			for _, b := range callee.Blocks {
				y(b)
			}
		}, sub, inner, depth+1)
		// deferred closures of the callee run inside the call too
		for _, b := range callee.Blocks {
			for _, in := range b.Instrs {
				if d, ok := in.(*ssa.Defer); ok {
					v.modOfCall(callee, &d.Call, sub, inner, depth+1)
				}
			}
		}
		m.call = m.call || inner.call
		m.ghosts = m.ghosts || inner.ghosts
		for g := range inner.ghostSet {
			m.noteGhost(g)
		}
		for k := range inner.unknown {
			m.unknown[k] = true
		}
		for k, cs := range inner.fieldConds {
			if m.fieldConds == nil {
				m.fieldConds = map[string][]string{}
			}
			m.fieldConds[k] = append(m.fieldConds[k], cs...)
		}
		for k, rs := range inner.known {
			for r := range rs {
				m.addRoot(k, r)
			}
		}
		return
	}
	m.call, m.ghosts = true, true
}

func (m *loopMod) noteGhost(g string) {
	if m.ghostSet == nil {
		m.ghostSet = map[string]bool{}
	}
	m.ghostSet[g] = true
}

func (m *loopMod) addRoot(k, r string) {
	switch r {
	case "":
		m.unknown[k] = true
	case freshRoot:
		// object created inside the region: not covered by the frame anyway
	default:
		if m.known[k] == nil {
			m.known[k] = map[string]bool{}
		}
		m.known[k][r] = true
	}
}

func (v *VC) subRoot(x ssa.Value, callee *ssa.Function, bindings []ssa.Value, root func(ssa.Value) string) string {
	switch a := x.(type) {
	case *ssa.FreeVar:
		for k, fv := range callee.FreeVars {
			if fv == a && k < len(bindings) {
				return root(bindings[k])
			}
		}
	case *ssa.FieldAddr:
		return v.subRoot(a.X, callee, bindings, root)
	case *ssa.IndexAddr:
		return v.subRoot(a.X, callee, bindings, root)
	case *ssa.Slice:
		return v.subRoot(a.X, callee, bindings, root)
	case *ssa.Alloc, *ssa.MakeMap:
		return freshRoot
	}
	return ""
}

func (v *VC) closureOf(x ssa.Value) *ssa.MakeClosure {
	if mc, ok := x.(*ssa.MakeClosure); ok {
		return mc
	}
	if mc, ok := v.closures[x]; ok {
		return mc
	}
	return nil
}

func (v *VC) genBlock(b *ssa.BasicBlock, initHeap *Heap) {
	v.emit("; ---- block %s%d (%s)", v.pfx, b.Index, b.Comment)
	var ins []*ssa.BasicBlock
	for _, p := range b.Preds {
		if !v.backEdge[[2]int{p.Index, b.Index}] {
			if _, ok := v.guard[p]; ok {
				ins = append(ins, p)
			}
		}
	}
	var heap *Heap
	isEntry := b == v.fn.Blocks[0]
	if isEntry {
		heap = initHeap
	} else if len(ins) == 0 {
		return // unreachable (e.g. recover block)
	} else {
		var conds []string
		var heaps []*Heap
		for _, p := range ins {
			conds = append(conds, v.edgeCond(p, b))
			heaps = append(heaps, v.heapOut[p])
		}
		g := v.freshName(fmt.Sprintf("g%s%d", v.pfx, b.Index))
		v.emit("(define-fun %s () Bool (or %s false))", g, strings.Join(conds, " "))
		v.guard[b] = g
		heap = v.mergeHeaps(conds, heaps)
	}
	g := v.guard[b]
	venv := map[string]ssa.Value{}
	aenv := map[string]ssa.Value{}
	if id := b.Idom(); id != nil {
		for n, x := range v.varOut[id] {
			venv[n] = x
		}
		for n, x := range v.addrOut[id] {
			aenv[n] = x
		}
	}
	var phis []*ssa.Phi
	for _, in := range b.Instrs {
		if p, ok := in.(*ssa.Phi); ok {
			phis = append(phis, p)
			if p.Comment != "" {
				venv[p.Comment] = p
			}
		}
	}
	v.curVars = venv
	v.curAddr = aenv
	ord, isHdr := v.loopHdr[b]
	phiTerm := func(phi *ssa.Phi) string {
		var term string
		for idx := len(ins) - 1; idx >= 0; idx-- {
			p := ins[idx]
			for i, pred := range b.Preds {
				if pred == p {
					if term == "" {
						term = v.val(phi.Edges[i])
					} else {
						term = fmt.Sprintf("(ite %s %s %s)", v.edgeCond(p, b), v.val(phi.Edges[i]), term)
					}
				}
			}
		}
		return term
	}
	if isHdr {
		ls := v.contract.Loops[ord]
		if ls == nil {
			ls = &LoopSpec{}
		}
		// 1. invariants hold on entry
		for _, p := range ins {
			env := v.paramEnv(v.heapOut[p].clone(), v.varOut[p], v.addrOut[p])
			env.old = v.preEnv
			env.loopHeap = env.heap
			for _, phi := range phis {
				for i, pred := range b.Preds {
					if pred == p && phi.Comment != "" {
						env.vars[phi.Comment] = TV{T: v.val(phi.Edges[i]), Typ: phi.Type()}
						env.before[phi.Comment] = env.vars[phi.Comment]
					}
				}
			}
			for _, inv := range ls.Invariants {
				v.oblige(fmt.Sprintf("loop%d.inv.entry", ord), inv.Label, v.edgeCond(p, b), v.evalSpec(inv, env), b.Instrs[0].Pos(), inv.Src)
			}
		}
		// 2. havoc what the loop may modify
		mod := &loopMod{unknown: map[string]bool{}, known: map[string]map[string]bool{}}
		body := v.loopBody[b]
		v.modOf(v.fn, func(y func(*ssa.BasicBlock)) {
			for _, bb := range v.fn.Blocks {
				if body[bb] {
					y(bb)
				}
			}
		}, v.rootOf, mod, 0)
		loopEntryHeap := heap.clone()
		oldClk, newClk := v.advanceClock(heap)
		ei := &epochInfo{kind: "havoc", parent: heap.epoch, all: mod.call, ghosts: mod.ghosts, unknown: mod.unknown, known: map[string][]string{}, entryClock: oldClk, newClock: newClk, stable: v.P.db.StableGhosts, ghostSet: mod.ghostSet, fieldConds: mod.fieldConds}
		for k, rs := range mod.known {
			for r := range rs {
				ei.known[k] = append(ei.known[k], r)
			}
			sort.Strings(ei.known[k])
		}
		keys := make([]string, 0, len(heap.m))
		for k := range heap.m {
			keys = append(keys, k)
		}
		sort.Strings(keys)
		ne := v.newEpoch(ei)
		for _, k := range keys {
			if !ei.affected(k) {
				continue
			}
			old := heap.m[k]
			v.heapVer++
			nm := fmt.Sprintf("H%d_%s", v.heapVer, sanitize(k))
			v.declHeap(nm, k)
			v.emitFrame(k, nm, old, ei.known[k], ei.extOnly(k), oldClk, newClk, ei.restrict(k))
			heap.m[k] = nm
		}
		heap.epoch = ne
		before := map[string]TV{}
		for _, phi := range phis {
			n := v.declare(phi)
			v.assume("true", v.validFactC(phi.Type(), n, newClk))
			if phi.Comment != "" {
				before[phi.Comment] = TV{T: phiTerm(phi), Typ: phi.Type()}
			}
		}
		// 3. assume invariants
		env := v.paramEnv(heap, venv, aenv)
		env.old = v.preEnv
		env.before = before
		env.loopHeap = loopEntryHeap
		v.hdrLoopHeap[b] = loopEntryHeap
		for _, inv := range ls.Invariants {
			v.emit("; assume invariant %s", inv.Src)
			v.assume(g, v.evalSpec(inv, env))
		}
		v.hdrBefore[b] = before
		v.hdrVenv[b] = copyVals(venv)
		v.hdrAenv[b] = copyVals(aenv)
		if ls.Decreases != nil {
			d := v.freshName("decr")
			v.emit("(define-fun %s () Int %s)", d, v.evalSpec(*ls.Decreases, env))
			v.hdrDecr[b] = d
		}
		v.cover(fmt.Sprintf("cover:loop%d-body-reachable", ord), g, b.Instrs[0].Pos())
	} else {
		for _, phi := range phis {
			v.define(phi, phiTerm(phi))
		}
	}
	for _, in := range b.Instrs {
		v.genInstr(in, g, heap)
	}
	v.heapOut[b] = heap
	v.varOut[b] = venv
	v.addrOut[b] = aenv
	// back edges out of b
	for _, s := range b.Succs {
		if v.backEdge[[2]int{b.Index, s.Index}] {
			ord := v.loopHdr[s]
			ls := v.contract.Loops[ord]
			if ls == nil {
				continue
			}
			// names visible to a loop invariant are those of the scope enclosing the loop
			env := v.paramEnv(heap.clone(), v.hdrVenv[s], v.hdrAenv[s])
			env.old = v.preEnv
			env.before = v.hdrBefore[s]
			env.loopHeap = v.hdrLoopHeap[s]
			for _, in := range s.Instrs {
				if phi, ok := in.(*ssa.Phi); ok && phi.Comment != "" {
					for i, pred := range s.Preds {
						if pred == b {
							env.vars[phi.Comment] = TV{T: v.val(phi.Edges[i]), Typ: phi.Type()}
						}
					}
				}
			}
			for _, inv := range ls.Invariants {
				v.oblige(fmt.Sprintf("loop%d.inv.preserved", ord), inv.Label, v.edgeCond(b, s), v.evalSpec(inv, env), s.Instrs[0].Pos(), inv.Src)
			}
			if ls.Decreases != nil {
				d0 := v.hdrDecr[s]
				d1 := v.evalSpec(*ls.Decreases, env)
				v.oblige(fmt.Sprintf("loop%d.decreases", ord), "", v.edgeCond(b, s), fmt.Sprintf("(and (<= 0 %s) (< %s %s))", d0, d1, d0), s.Instrs[0].Pos(), ls.Decreases.Src)
			}
		}
	}
}

func (v *VC) genInstr(in ssa.Instruction, g string, heap *Heap) {
	v.curHeap = heap
	switch i := in.(type) {
	case *ssa.DebugRef:
		if id, ok := i.Expr.(*ast.Ident); ok {
			if fv, isVar := i.Object().(*types.Var); isVar && fv.IsField() {
				// the selector identifier of x.f names a field, not a variable
				break
			}
			if i.IsAddr {
				v.curAddr[id.Name] = i.X
				delete(v.curVars, id.Name)
			} else {
				v.curVars[id.Name] = i.X
			}
		}
	case *ssa.Phi, *ssa.If, *ssa.Jump:
	case *ssa.BinOp:
		v.genBinOp(i, g)
	case *ssa.UnOp:
		v.genUnOp(i, g, heap)
	case *ssa.Alloc:
		id := v.newAlloc(v.isPrivate(i), heap)
		v.allocID[i] = id
		v.define(i, fmt.Sprintf("(obj %s)", id))
		et := i.Type().Underlying().(*types.Pointer).Elem()
		v.assume("true", v.tyofFact(et, v.val(i)))
		if i.Comment != "" && token.IsIdentifier(i.Comment) {
			v.curAddr[i.Comment] = i
			delete(v.curVars, i.Comment)
			if i.Block() == v.fn.Blocks[0] && !v.inline {
				for _, p := range v.fn.Params {
					if p.Name() == i.Comment {
						if v.paramCell == nil {
							v.paramCell = map[string]ssa.Value{}
						}
						v.paramCell[i.Comment] = i
					}
				}
			}
		}
		v.zeroInit(et, v.val(i), id, heap)
	case *ssa.FieldAddr:
		x := v.val(i.X)
		v.safety("nil-deref", g, fmt.Sprintf("(not (= %s nilp))", x), i.Pos())
		v.define(i, fmt.Sprintf("(fld %s %d)", x, i.Field))
		v.assume(g, v.tyofFact(i.Type().Underlying().(*types.Pointer).Elem(), v.val(i)))
	case *ssa.IndexAddr:
		x := v.val(i.X)
		idx := v.val(i.Index)
		switch u := i.X.Type().Underlying().(type) {
		case *types.Slice:
			v.safety("index-bounds", g, fmt.Sprintf("(and (<= 0 %s) (< %s (s-len %s)))", idx, idx, x), i.Pos())
			v.define(i, fmt.Sprintf("(selem %s %s)", x, idx))
			v.assume(g, v.tyofFact(u.Elem(), v.val(i)))
		case *types.Pointer:
			arr := u.Elem().Underlying().(*types.Array)
			v.safety("nil-deref", g, fmt.Sprintf("(not (= %s nilp))", x), i.Pos())
			v.safety("index-bounds", g, fmt.Sprintf("(and (<= 0 %s) (< %s %d))", idx, idx, arr.Len()), i.Pos())
			v.define(i, fmt.Sprintf("(elm %s %s)", x, idx))
		default:
			v.unsupp("indexaddr of %s", i.X.Type())
			v.declare(i)
		}
	case *ssa.Index:
		x := v.val(i.X)
		idx := v.val(i.Index)
		switch u := i.X.Type().Underlying().(type) {
		case *types.Array:
			v.safety("index-bounds", g, fmt.Sprintf("(and (<= 0 %s) (< %s %d))", idx, idx, u.Len()), i.Pos())
			v.define(i, fmt.Sprintf("(select %s %s)", x, idx))
		case *types.Basic: // string
			v.useStrAt()
			v.safety("index-bounds", g, fmt.Sprintf("(and (<= 0 %s) (< %s (strlen %s)))", idx, idx, x), i.Pos())
			v.define(i, fmt.Sprintf("(str.at %s %s)", x, idx))
		default:
			v.unsupp("index of %s", i.X.Type())
			v.declare(i)
		}
	case *ssa.Store:
		v.safety("nil-deref", g, fmt.Sprintf("(not (= %s nilp))", v.val(i.Addr)), i.Pos())
		v.store(i.Val.Type(), v.val(i.Addr), v.val(i.Val), heap)
	case *ssa.Slice:
		v.genSlice(i, g)
	case *ssa.Lookup:
		v.genLookup(i, g, heap)
	case *ssa.Extract:
		v.define(i, fmt.Sprintf("%s_%d", v.val(i.Tuple), i.Index))
		if mc, ok := v.closures[i.Tuple]; ok {
			v.closures[i] = mc
		}
	case *ssa.MapUpdate:
		mt := i.Map.Type().Underlying().(*types.Map)
		dk, vk, ks, vs := v.mapKeys(mt)
		m, k, val := v.val(i.Map), v.val(i.Key), v.val(i.Value)
		v.safety("nil-map-write", g, fmt.Sprintf("(not (= %s nilp))", m), i.Pos())
		hd := v.heapGet(heap, dk, fmt.Sprintf("RAW:(Array Ptr (Array %s Bool))", ks))
		hv := v.heapGet(heap, vk, fmt.Sprintf("RAW:(Array Ptr (Array %s %s))", ks, vs))
		v.heapSet(heap, dk, fmt.Sprintf("(store %s %s (store (select %s %s) %s true))", hd, m, hd, m, k))
		v.heapSet(heap, vk, fmt.Sprintf("(store %s %s (store (select %s %s) %s %s))", hv, m, hv, m, k, val))
	case *ssa.MakeMap:
		id := v.newAlloc(v.isPrivate(i), heap)
		v.allocID[i] = id
		v.define(i, fmt.Sprintf("(obj %s)", id))
		mt := i.Type().Underlying().(*types.Map)
		dk, _, ks, _ := v.mapKeys(mt)
		hd := v.heapGet(heap, dk, fmt.Sprintf("RAW:(Array Ptr (Array %s Bool))", ks))
		v.heapSet(heap, dk, fmt.Sprintf("(store %s %s ((as const (Array %s Bool)) false))", hd, v.val(i), ks))
	case *ssa.MakeSlice:
		id := v.newAlloc(false, heap)
		ln, cp := v.val(i.Len), v.val(i.Cap)
		v.safety("make-size", g, fmt.Sprintf("(and (<= 0 %s) (<= %s %s))", ln, ln, cp), i.Pos())
		v.define(i, fmt.Sprintf("(mk-slice (obj %s) 0 %s %s)", id, ln, cp))
		et := i.Type().Underlying().(*types.Slice).Elem()
		v.zeroRegion(et, id, heap)
	case *ssa.MakeClosure:
		id := v.newAlloc(false, heap)
		v.define(i, fmt.Sprintf("(obj %s)", id))
		v.closures[i] = i
	case *ssa.Convert:
		v.genConvert(i, g)
	case *ssa.ChangeType:
		v.genChangeType(i)
		if mc, ok := v.closures[i.X]; ok {
			v.closures[i] = mc
		}
	case *ssa.Call:
		v.genCall(i, g, heap)
	case *ssa.Return:
		v.genReturn(i, g, heap)
	case *ssa.MakeInterface:
		v.define(i, v.makeIface(i.X.Type(), v.val(i.X)))
	case *ssa.ChangeInterface:
		v.define(i, v.val(i.X))
	case *ssa.TypeAssert:
		v.genTypeAssert(i, g)
	case *ssa.Defer:
		if !i.Block().Dominates(i.Block()) {
			v.unsupp("defer")
		}
		v.defers = append(v.defers, deferRec{call: &i.Call, block: i.Block()})
	case *ssa.RunDefers:
		for k := len(v.defers) - 1; k >= 0; k-- {
			d := v.defers[k]
			if d.block.Dominates(i.Block()) {
				v.doCall(d.call, g, heap, i.Pos())
				continue
			}
			if !reaches(d.block, i.Block()) {
				continue // the defer statement is not on any path to this exit
			}
			if v.inLoop(d.block) {
				v.unsupp("defer inside a loop (not executed in the model)")
				continue
			}
			// the deferred call runs iff this execution passed through the defer statement:
			// block guards are path predicates, so that is exactly the guard of its block
			gd, ok := v.guard[d.block]
			if !ok {
				continue
			}
			taken := heap.clone()
			v.doCall(d.call, fmt.Sprintf("(and %s %s)", g, gd), taken, i.Pos())
			m := v.mergeHeaps([]string{gd, "(not " + gd + ")"}, []*Heap{taken, heap.clone()})
			heap.m, heap.epoch = m.m, m.epoch
		}
	case *ssa.Field:
		v.define(i, fmt.Sprintf("(%s-f%d %s)", v.sortOf(i.X.Type()), i.Field, v.val(i.X)))
	case *ssa.Panic:
		if !v.contractAllowsPanic() {
			v.oblige("explicit-panic", "", g, "false", i.Pos(), "")
		}
	case *ssa.Range:
		v.names[i] = "range_" + v.pfx + sanitize(i.Name())
		if mt, ok := i.X.Type().Underlying().(*types.Map); ok {
			// the set of keys this range statement has produced so far: empty
			k := v.visKeyOfRange(i, mt)
			v.heapSet(heap, k, fmt.Sprintf("((as const (Array %s Bool)) false)", v.sortOf(mt.Key())))
			// the domain of the map when the range statement starts (entries created during the
			// iteration may be skipped: coverage is claimed for entries present from start to end only)
			dk, _, ks, _ := v.mapKeys(mt)
			hd := v.heapGet(heap, dk, fmt.Sprintf("RAW:(Array Ptr (Array %s Bool))", ks))
			dn := v.freshName("rangedom")
			v.emit("(define-fun %s () (Array %s Bool) (select %s %s))", dn, ks, hd, v.val(i.X))
			if v.rangeDom == nil {
				v.rangeDom = map[*ssa.Range]string{}
			}
			v.rangeDom[i] = dn
		}
	case *ssa.Next:
		v.genNext(i, g, heap)
	case *ssa.Go:
		if fn := v.goTarget(i); fn != nil && goBodyReadOnly(fn) {
			v.note("go statement: spawned body %s is not verified; it contains no store to memory of the spawner (syntactic check), its callees are assumed not to write memory the spawner observes", fn.Name())
		} else {
			v.unsupp("go statement (spawned body not verified; treated as an arbitrary call)")
			v.havocAll(heap, false)
		}
	case *ssa.Select:
		v.unsupp("select (treated as an arbitrary call returning arbitrary values)")
		v.havocAll(heap, false)
		v.declare(i)
	case *ssa.Send:
		v.unsupp("channel send (treated as an arbitrary call)")
		v.havocAll(heap, false)
	case *ssa.MakeChan:
		v.define(i, fmt.Sprintf("(obj %s)", v.newAlloc(false, heap)))
	case *ssa.SliceToArrayPointer:
		v.unsupp("slice to array pointer")
		v.declare(i)
	case *ssa.MultiConvert:
		v.unsupp("multiconvert")
		v.declare(i)
	default:
		v.unsupp("instr %T", in)
		if val, ok := in.(ssa.Value); ok {
			v.declare(val)
		}
	}
}

func (v *VC) goTarget(i *ssa.Go) *ssa.Function {
	if mc := v.closureOf(i.Call.Value); mc != nil {
		return mc.Fn.(*ssa.Function)
	}
	if f := i.Call.StaticCallee(); f != nil && f.Blocks != nil {
		return f
	}
	return nil
}

// goBodyReadOnly: the function (and closures it creates) never stores through an address that is
// not rooted at one of its own allocations, and never updates a map it did not create.
func goBodyReadOnly(fn *ssa.Function) bool {
	var local func(x ssa.Value) bool
	local = func(x ssa.Value) bool {
		switch a := x.(type) {
		case *ssa.Alloc, *ssa.MakeMap, *ssa.MakeSlice:
			return true
		case *ssa.FieldAddr:
			return local(a.X)
		case *ssa.IndexAddr:
			return local(a.X)
		case *ssa.Slice:
			return local(a.X)
		}
		return false
	}
	for _, b := range fn.Blocks {
		for _, in := range b.Instrs {
			switch i := in.(type) {
			case *ssa.Store:
				if !local(i.Addr) {
					return false
				}
			case *ssa.MapUpdate:
				if !local(i.Map) {
					return false
				}
			case *ssa.MakeClosure:
				if f, ok := i.Fn.(*ssa.Function); ok && !goBodyReadOnly(f) {
					return false
				}
			}
		}
	}
	return true
}

func reaches(from, to *ssa.BasicBlock) bool {
	seen := map[*ssa.BasicBlock]bool{}
	stack := []*ssa.BasicBlock{from}
	for len(stack) > 0 {
		b := stack[len(stack)-1]
		stack = stack[:len(stack)-1]
		if b == to {
			return true
		}
		if seen[b] {
			continue
		}
		seen[b] = true
		stack = append(stack, b.Succs...)
	}
	return false
}

func (v *VC) inLoop(b *ssa.BasicBlock) bool {
	for _, body := range v.loopBody {
		if body[b] {
			return true
		}
	}
	return false
}

func (v *VC) contractAllowsPanic() bool {
	return v.contract != nil && v.contract.AllowPanic
}

func (v *VC) zeroInit(et types.Type, ptr string, id string, heap *Heap) {
	if _, ok := et.Underlying().(*types.Array); ok {
		arr := et.Underlying().(*types.Array)
		v.zeroRegion(arr.Elem(), id, heap)
		return
	}
	if st, ok := et.Underlying().(*types.Struct); ok {
		hasArr := false
		for f := 0; f < st.NumFields(); f++ {
			if _, isArr := st.Field(f).Type().Underlying().(*types.Array); isArr {
				hasArr = true
			}
		}
		if hasArr {
			v.leafKeysArr(et, func(k, s string, zero string) {
				v.regionSet(k, s, id, zero, heap)
			})
			return
		}
	}
	v.store(et, ptr, v.zero(et), heap)
}

func (v *VC) leafKeysArr(t types.Type, f func(key, sort, zero string)) {
	switch u := t.Underlying().(type) {
	case *types.Struct:
		for i := 0; i < u.NumFields(); i++ {
			v.leafKeysArr(u.Field(i).Type(), f)
		}
	case *types.Array:
		v.leafKeysArr(u.Elem(), f)
	default:
		k, s := v.heapKey(t)
		f(k, s, v.zero(t))
	}
}

// zeroRegion: every cell of the fresh object id holds the zero value.
func (v *VC) zeroRegion(et types.Type, id string, heap *Heap) {
	v.leafKeysArr(et, func(k, s, zero string) { v.regionSet(k, s, id, zero, heap) })
}

func (v *VC) regionSet(key, srt string, id string, zero string, heap *Heap) {
	old := v.heapGet(heap, key, srt)
	v.heapVer++
	nm := fmt.Sprintf("H%d_%s", v.heapVer, sanitize(key))
	v.declHeap(nm, key)
	v.emit("(assert (forall ((p Ptr)) (! (= (select %s p) (ite (= (root p) %s) %s (select %s p))) :pattern ((select %s p)))))", nm, id, zero, old, nm)
	heap.m[key] = nm
}

func (v *VC) genUnOp(i *ssa.UnOp, g string, heap *Heap) {
	x := v.val(i.X)
	switch i.Op {
	case token.MUL:
		if gl, ok := i.X.(*ssa.Global); ok && v.P.immutableGlobal(gl) {
			v.define(i, v.globalValue(gl))
			return
		}
		if a, ok := i.X.(*ssa.Alloc); ok {
			if sv := constCellValue(a); sv != nil {
				// a captured parameter that is assigned exactly once: every load yields that value
				v.define(i, v.val(sv))
				return
			}
		}
		v.safety("nil-deref", g, fmt.Sprintf("(not (= %s nilp))", x), i.Pos())
		if _, isArr := i.Type().Underlying().(*types.Array); isArr {
			v.unsupp("load of array value")
			v.declare(i)
			return
		}
		v.define(i, v.load(i.Type(), x, heap))
		v.assume(g, v.rangeFact(i.Type(), v.val(i)))
		v.assume(g, v.validFact(i.Type(), v.val(i), heap))
	case token.NOT:
		v.define(i, "(not "+x+")")
	case token.SUB:
		if v.sortOf(i.Type()) == "Int" {
			v.define(i, wrapTo(i.Type(), "(- "+x+")"))
		} else {
			v.define(i, "(- "+x+")")
		}
	case token.XOR:
		if isUnsigned(i.Type()) {
			_, hi, _ := intRange(i.Type())
			v.define(i, fmt.Sprintf("(- %s %s)", hi, x))
		} else {
			v.define(i, fmt.Sprintf("(- (- %s) 1)", x))
		}
	case token.ARROW:
		v.unsupp("channel receive (treated as an arbitrary call returning an arbitrary value)")
		v.havocAll(heap, false)
		v.declare(i)
	default:
		v.unsupp("unop %s", i.Op)
		v.declare(i)
	}
}

func (v *VC) globalValue(gl *ssa.Global) string {
	et := gl.Type().Underlying().(*types.Pointer).Elem()
	n := "gv_" + sanitize(gl.Pkg.Pkg.Name()+"_"+gl.Name())
	v.declGlobalConst(n, et, gl.Pkg.Pkg.Name()+"."+gl.Name())
	if v.P.errorSentinel(gl) {
		v.sentinels[n] = true
	}
	return n
}

func (v *VC) declGlobalConst(n string, t types.Type, human string) {
	if _, ok := v.globalConsts[n]; ok {
		return
	}
	v.globalConsts[n] = v.sortOf(t)
	v.globalFacts = append(v.globalFacts, v.rangeFact(t, n), v.preFact(t, n))
}

func (v *VC) genSlice(i *ssa.Slice, g string) {
	x := v.val(i.X)
	switch u := i.X.Type().Underlying().(type) {
	case *types.Pointer:
		arr := u.Elem().Underlying().(*types.Array)
		lo, hi := "0", fmt.Sprint(arr.Len())
		if i.Low != nil {
			lo = v.val(i.Low)
		}
		if i.High != nil {
			hi = v.val(i.High)
		}
		v.safety("nil-deref", g, fmt.Sprintf("(not (= %s nilp))", x), i.Pos())
		v.safety("slice-bounds", g, fmt.Sprintf("(and (<= 0 %s) (<= %s %s) (<= %s %d))", lo, lo, hi, hi, arr.Len()), i.Pos())
		v.define(i, fmt.Sprintf("(mk-slice %s %s (- %s %s) (- %d %s))", x, lo, hi, lo, arr.Len(), lo))
	case *types.Slice:
		lo, hi := "0", "(s-len "+x+")"
		if i.Low != nil {
			lo = v.val(i.Low)
		}
		if i.High != nil {
			hi = v.val(i.High)
		}
		mx := "(s-cap " + x + ")"
		if i.Max != nil {
			mx = v.val(i.Max)
			v.safety("slice-bounds", g, fmt.Sprintf("(and (<= %s %s) (<= %s (s-cap %s)))", hi, mx, mx, x), i.Pos())
		}
		v.safety("slice-bounds", g, fmt.Sprintf("(and (<= 0 %s) (<= %s %s) (<= %s (s-cap %s)))", lo, lo, hi, hi, x), i.Pos())
		v.define(i, fmt.Sprintf("(mk-slice (s-base %s) (+ (s-off %s) %s) (- %s %s) (- %s %s))", x, x, lo, hi, lo, mx, lo))
	case *types.Basic: // string
		v.useStrSub()
		lo, hi := "0", "(strlen "+x+")"
		if i.Low != nil {
			lo = v.val(i.Low)
		}
		if i.High != nil {
			hi = v.val(i.High)
		}
		v.safety("slice-bounds", g, fmt.Sprintf("(and (<= 0 %s) (<= %s %s) (<= %s (strlen %s)))", lo, lo, hi, hi, x), i.Pos())
		v.define(i, fmt.Sprintf("(str.sub %s %s %s)", x, lo, hi))
	default:
		v.unsupp("slice of %s", i.X.Type())
		v.declare(i)
	}
}

func (v *VC) genLookup(i *ssa.Lookup, g string, heap *Heap) {
	if mt, ok := i.X.Type().Underlying().(*types.Map); ok {
		dk, vk, ks, vs := v.mapKeys(mt)
		m, k := v.val(i.X), v.val(i.Index)
		hd := v.heapGet(heap, dk, fmt.Sprintf("RAW:(Array Ptr (Array %s Bool))", ks))
		hv := v.heapGet(heap, vk, fmt.Sprintf("RAW:(Array Ptr (Array %s %s))", ks, vs))
		okT := fmt.Sprintf("(and (not (= %s nilp)) (select (select %s %s) %s))", m, hd, m, k)
		valT := fmt.Sprintf("(ite %s (select (select %s %s) %s) %s)", okT, hv, m, k, v.zero(mt.Elem()))
		n := "v_" + v.pfx + sanitize(i.Name())
		v.names[i] = n
		if i.CommaOk {
			v.emit("(define-fun %s_0 () %s %s)", n, vs, valT)
			v.emit("(define-fun %s_1 () Bool %s)", n, okT)
			v.assume(g, v.rangeFact(mt.Elem(), n+"_0"))
			v.assume(g, v.validFact(mt.Elem(), n+"_0", heap))
		} else {
			v.emit("(define-fun %s () %s %s)", n, vs, valT)
			v.assume(g, v.rangeFact(mt.Elem(), n))
			v.assume(g, v.validFact(mt.Elem(), n, heap))
		}
		return
	}
	// string index
	v.useStrAt()
	x, idx := v.val(i.X), v.val(i.Index)
	v.safety("index-bounds", g, fmt.Sprintf("(and (<= 0 %s) (< %s (strlen %s)))", idx, idx, x), i.Pos())
	v.define(i, fmt.Sprintf("(str.at %s %s)", x, idx))
}

func (v *VC) genNext(i *ssa.Next, g string, heap *Heap) {
	n := "v_" + v.pfx + sanitize(i.Name())
	v.names[i] = n
	rng, _ := i.Iter.(*ssa.Range)
	if i.IsString || rng == nil {
		v.unsupp("range over string")
		v.emit("(declare-const %s_0 Bool)\n(declare-const %s_1 Int)\n(declare-const %s_2 Int)", n, n, n)
		return
	}
	mt := rng.X.Type().Underlying().(*types.Map)
	dk, vk, ks, vs := v.mapKeys(mt)
	m := v.val(rng.X)
	hd := v.heapGet(heap, dk, fmt.Sprintf("RAW:(Array Ptr (Array %s Bool))", ks))
	hv := v.heapGet(heap, vk, fmt.Sprintf("RAW:(Array Ptr (Array %s %s))", ks, vs))
	v.emit("(declare-const %s_0 Bool)", n)
	v.emit("(declare-const %s_1 %s)", n, ks)
	v.emit("(define-fun %s_2 () %s (select (select %s %s) %s_1))", n, vs, hv, m, n)
	v.assume(g, fmt.Sprintf("(=> %s_0 (and (not (= %s nilp)) (select (select %s %s) %s_1)))", n, m, hd, m, n))
	v.assume(g, v.rangeFact(mt.Key(), n+"_1"))
	v.assume(g, v.rangeFact(mt.Elem(), n+"_2"))
	v.assume(g, v.validFact(mt.Key(), n+"_1", heap))
	v.assume(g, v.validFact(mt.Elem(), n+"_2", heap))
	// coverage: a key is produced at most once; when the iteration ends every key that is (still) in
	// the map has been produced (entries deleted during the loop may have been skipped, entries added
	// during the loop may or may not have been produced - neither is claimed)
	vk2 := v.visKeyOfRange(rng, mt)
	vis := v.heapGet(heap, vk2, fmt.Sprintf("RAW:(Array %s Bool)", ks))
	v.assume(g, fmt.Sprintf("(=> %s_0 (not (select %s %s_1)))", n, vis, n))
	if dn, ok := v.rangeDom[rng]; ok {
		v.assume(g, fmt.Sprintf("(=> (and (not %s_0) (not (= %s nilp))) (forall ((qk %s)) (! (=> (and (select %s qk) (select (select %s %s) qk)) (select %s qk)) :pattern ((select %s qk)))))", n, m, ks, dn, hd, m, vis, vis))
	}
	v.heapSet(heap, vk2, fmt.Sprintf("(ite %s_0 (store %s %s_1 true) %s)", n, vis, n, vis))
	v.note("map iteration: arbitrary order; every key still in the map when the loop ends was visited exactly once (visited(k) in contracts)")
}

// visKey: heap key of the visited-set ghost of the map range a Next instruction steps ("" if none).
func (v *VC) visKey(i *ssa.Next) string {
	rng, _ := i.Iter.(*ssa.Range)
	if i.IsString || rng == nil {
		return ""
	}
	mt, ok := rng.X.Type().Underlying().(*types.Map)
	if !ok {
		return ""
	}
	return v.visKeyOfRange(rng, mt)
}

func (v *VC) visKeyOfRange(rng *ssa.Range, mt *types.Map) string {
	k := "ghost:vis_" + v.pfx + sanitize(rng.Name())
	v.registerKey(k, fmt.Sprintf("RAW:(Array %s Bool)", v.sortOf(mt.Key())))
	return k
}

func (v *VC) genConvert(i *ssa.Convert, g string) {
	from, to := i.X.Type(), i.Type()
	fs, ts := v.sortOf(from), v.sortOf(to)
	switch {
	case fs == "Int" && ts == "Int":
		v.define(i, wrapTo(to, v.val(i.X)))
	case fs == "Str" && ts == "Slice":
		n := v.declare(i)
		v.assume(g, fmt.Sprintf("(and (= (s-len %s) (strlen %s)) (= (s-off %s) 0) (= (s-base %s) (ite (= (strlen %s) 0) (s-base %s) (obj %s))))", n, v.val(i.X), n, n, v.val(i.X), n, v.newAlloc(false, v.curHeap)))
		v.useBytesOf()
		v.assume(g, fmt.Sprintf("(= (bytes.str %s) %s)", n, v.val(i.X)))
	case fs == "Slice" && ts == "Str":
		v.useBytesOf()
		n := v.declare(i)
		v.assume(g, fmt.Sprintf("(= (strlen %s) (s-len %s))", n, v.val(i.X)))
		v.note("string(bytes): content relation between the byte slice and the string is abstract (length only)")
	case ts == "Ptr" && fs == "Ptr":
		v.define(i, v.val(i.X))
	case fs == "Int" && ts == "Real":
		v.define(i, fmt.Sprintf("(to_real %s)", v.val(i.X)))
	case fs == "Real" && ts == "Int":
		// float -> integer: a deterministic (uninterpreted) function of the float, within the target range
		v.features["f2i"] = true
		// (out-of-range conversions are implementation-defined in Go; the result is some value of the type)
		v.define(i, fmt.Sprintf("(f2i %s)", v.val(i.X)))
		v.assume(g, v.rangeFact(to, v.val(i)))
	default:
		v.declare(i)
		v.note("conversion %s -> %s yields an arbitrary value", from, to)
	}
}

func (v *VC) genChangeType(i *ssa.ChangeType) {
	fs, ts := v.sortOf(i.X.Type()), v.sortOf(i.Type())
	if fs == ts {
		v.define(i, v.val(i.X))
		return
	}
	v.define(i, v.convStruct(i.X.Type(), i.Type(), v.val(i.X)))
}

func (v *VC) convStruct(from, to types.Type, e string) string {
	fst, ok1 := from.Underlying().(*types.Struct)
	tst, ok2 := to.Underlying().(*types.Struct)
	if !ok1 || !ok2 {
		return e
	}
	fs, ts := v.sortOf(from), v.sortOf(to)
	if fs == ts {
		return e
	}
	var parts []string
	for k := 0; k < fst.NumFields(); k++ {
		parts = append(parts, v.convStruct(fst.Field(k).Type(), tst.Field(k).Type(), fmt.Sprintf("(%s-f%d %s)", fs, k, e)))
	}
	if len(parts) == 0 {
		return "mk-" + ts
	}
	return fmt.Sprintf("(mk-%s %s)", ts, strings.Join(parts, " "))
}

func (v *VC) makeIface(t types.Type, x string) string {
	if _, isIface := t.Underlying().(*types.Interface); isIface {
		return x
	}
	tid := v.typeID(t)
	switch v.sortOf(t) {
	case "Ptr":
		return fmt.Sprintf("(iface-p %d %s)", tid, x)
	case "Int":
		return fmt.Sprintf("(iface-i %d %s)", tid, x)
	case "Bool":
		return fmt.Sprintf("(iface-i %d (ite %s 1 0))", tid, x)
	case "Str":
		return fmt.Sprintf("(iface-s %d %s)", tid, x)
	}
	if bx, _ := v.boxFns(v.sortOf(t)); bx != "" {
		// a struct value boxed into an interface: the box is an injective function of the value
		return fmt.Sprintf("(iface-o %d (%s %s))", tid, bx, x)
	}
	v.fresh++
	return fmt.Sprintf("(iface-o %d %d)", tid, v.fresh)
}

// boxFns returns, for a struct sort, the names of the injective boxing function S -> Int and of
// its inverse (declared on first use); "" for other sorts.
func (v *VC) boxFns(srt string) (string, string) {
	if _, ok := v.structs[srt]; !ok {
		return "", ""
	}
	bx, ub := "box_"+srt, "unbox_"+srt
	if _, ok := v.ufs[bx]; !ok {
		v.uf(bx, []string{srt}, "Int")
		v.uf(ub, []string{"Int"}, srt)
		v.extraAxioms = append(v.extraAxioms, fmt.Sprintf("(assert (forall ((x %s)) (! (= (%s (%s x)) x) :pattern ((%s x)))))", srt, ub, bx, bx))
	}
	return bx, ub
}

func (v *VC) genTypeAssert(i *ssa.TypeAssert, g string) {
	x := v.val(i.X)
	n := "v_" + v.pfx + sanitize(i.Name())
	v.names[i] = n
	if tp, isTP := i.AssertedType.(*types.TypeParam); isTP {
		// x.(T) with T a type parameter of a generic body: whether the dynamic type matches the
		// (unknown) type argument is an uninterpreted function of the dynamic type
		okN := v.freshName("taok")
		v.emit("(define-fun %s () Bool %s)", okN, v.typeParamTest(tp, x))
		if i.CommaOk {
			v.emit("(define-fun %s_0 () Iface (ite %s %s inil))", n, okN, x)
			v.emit("(define-fun %s_1 () Bool %s)", n, okN)
		} else {
			v.safety("type-assert", g, okN, i.Pos())
			v.emit("(define-fun %s () Iface %s)", n, x)
		}
		return
	}
	if _, isIface := i.AssertedType.Underlying().(*types.Interface); isIface {
		okN := v.freshName("taok")
		v.features["implements"] = true
		if emptyIface(i.AssertedType) {
			v.emit("(define-fun %s () Bool (not (= %s inil)))", okN, x)
		} else {
			// whether a value implements an interface is a function of its dynamic type
			v.emit("(define-fun %s () Bool (and (not (= %s inil)) (implements (iface-tid %s) %d)))", okN, x, x, v.typeID(i.AssertedType))
		}
		if i.CommaOk {
			v.emit("(define-fun %s_0 () Iface (ite %s %s inil))", n, okN, x)
			v.emit("(define-fun %s_1 () Bool %s)", n, okN)
		} else {
			v.safety("type-assert", g, okN, i.Pos())
			v.emit("(define-fun %s () Iface %s)", n, x)
		}
		return
	}
	tid := v.typeID(i.AssertedType)
	okT := fmt.Sprintf("(= (iface-tid %s) %d)", x, tid)
	srt := v.sortOf(i.AssertedType)
	if srt == "Ptr" {
		// a value of a pointer type is always boxed with the pointer constructor
		okT = fmt.Sprintf("(and ((_ is iface-p) %s) (= (ip-type %s) %d))", x, x, tid)
	}
	var val string
	switch srt {
	case "Ptr":
		val = fmt.Sprintf("(ip-val %s)", x)
	case "Int":
		val = fmt.Sprintf("(ii-val %s)", x)
	case "Bool":
		val = fmt.Sprintf("(= (ii-val %s) 1)", x)
	case "Str":
		val = fmt.Sprintf("(is-val %s)", x)
	default:
		if _, ub := v.boxFns(srt); ub != "" {
			val = fmt.Sprintf("(%s (io-id %s))", ub, x)
		} else {
			fn := v.freshName("tav")
			v.emit("(declare-const %s %s)", fn, srt)
			val = fn
		}
	}
	if i.CommaOk {
		v.emit("(define-fun %s_0 () %s (ite %s %s %s))", n, srt, okT, val, v.zero(i.AssertedType))
		v.emit("(define-fun %s_1 () Bool %s)", n, okT)
	} else {
		v.safety("type-assert", g, okT, i.Pos())
		v.emit("(define-fun %s () %s %s)", n, srt, val)
	}
}

func emptyIface(t types.Type) bool {
	it, ok := t.Underlying().(*types.Interface)
	return ok && it.NumMethods() == 0
}

func (v *VC) genReturn(i *ssa.Return, g string, heap *Heap) {
	var vals []string
	for _, r := range i.Results {
		vals = append(vals, v.val(r))
	}
	if v.inline {
		v.rets = append(v.rets, inlRet{guard: g, vals: vals, heap: heap.clone()})
		return
	}
	env := v.paramEnv(heap.clone(), v.curVars, v.curAddr)
	env.old = v.preEnv
	// a postcondition speaks about the function's parameters, not about locals that shadow them
	for _, p := range v.fn.Params {
		if cell, ok := v.paramCell[p.Name()]; ok {
			env.addr[p.Name()] = cell
			continue
		}
		env.vars[p.Name()] = TV{T: v.val(p), Typ: p.Type()}
		delete(env.addr, p.Name())
	}
	res := v.fn.Signature.Results()
	for k := 0; k < res.Len(); k++ {
		tv := TV{T: vals[k], Typ: res.At(k).Type()}
		if nm := res.At(k).Name(); nm != "" && nm != "_" {
			env.vars[nm] = tv
			delete(env.addr, nm) // the returned value is authoritative, not a shadowing local or the cell
		}
		env.vars[fmt.Sprintf("result%d", k)] = tv
		if k == 0 {
			env.vars["result"] = tv
		}
	}
	v.retCount++
	v.cover(fmt.Sprintf("cover:return%d-reachable", v.retCount), g, i.Pos())
	env.witness = true
	// a local variable named by a postcondition but not (yet) declared on this path stands for an
	// arbitrary value: the clause must hold whatever it is (typically its guard is false here)
	env.outOfScope = func(name string) (TV, bool) {
		x, isAddr, ok := v.findLocal(name)
		if !ok {
			return TV{}, false
		}
		c := v.freshName("oos_" + sanitize(name))
		if isAddr {
			et := x.Type().Underlying().(*types.Pointer).Elem()
			v.emit("(declare-const %s Ptr)", c)
			return TV{T: v.load(et, c, env.heap), Typ: et}, true
		}
		v.emit("(declare-const %s %s)", c, v.sortOf(x.Type()))
		return TV{T: c, Typ: x.Type()}, true
	}
	for _, e := range v.contract.Ensures {
		if e.Assumed {
			continue
		}
		if w, ok := v.contract.Witness[e.Label]; ok && e.Label != "" {
			if v.ensuresWithWitness(e, w, env, g, i) {
				continue
			}
		}
		v.oblige("ensures", e.Label, g, v.evalSpec(e, env), i.Pos(), e.Src)
	}
}

// ensuresWithWitness proves "G ==> exists f :: K1 && ... && Kn" by the author's witness for f
// (sound: an instance implies the existential), one obligation per conjunct. Returns false when
// the witness expression is not in scope at this return (the plain clause is used instead).
func (v *VC) ensuresWithWitness(e Clause, wsrc string, env *SpecEnv, g string, ret *ssa.Return) bool {
	ast, err := ParseSpec(e.Src)
	if err != nil {
		return false
	}
	var guard SExpr
	body := ast
	if b, ok := ast.(SBinary); ok && b.Op == "==>" {
		guard, body = b.L, b.R
	}
	q, ok := body.(SQuant)
	if !ok || q.Forall || len(q.Vars) != 1 {
		return false
	}
	wt, werr := v.evalClause(Clause{Src: wsrc, File: e.File, Line: e.Line}, env)
	if werr != nil {
		return false
	}
	gt := "true"
	if guard != nil {
		var gerr error
		func() {
			defer func() {
				if r := recover(); r != nil {
					if _, is := r.(specErr); is {
						gerr = fmt.Errorf("spec")
						return
					}
					panic(r)
				}
			}()
			gt = v.ev(guard, env).T
		}()
		if gerr != nil {
			return false
		}
	}
	var conj []SExpr
	var split func(x SExpr)
	split = func(x SExpr) {
		if b, ok := x.(SBinary); ok && b.Op == "&&" {
			split(b.L)
			split(b.R)
			return
		}
		conj = append(conj, x)
	}
	split(q.Body)
	we := *env
	we.witness = false
	we.bound = map[string]TV{}
	for k, b := range env.bound {
		we.bound[k] = b
	}
	we.bound[q.Vars[0]] = TV{T: wt, Typ: tInt}
	for k, c := range conj {
		var ct string
		failed := false
		func() {
			defer func() {
				if r := recover(); r != nil {
					if se, is := r.(specErr); is {
						v.specErrors = append(v.specErrors, fmt.Sprintf("%s:%d: %s", e.File, e.Line, se.msg))
						failed = true
						return
					}
					panic(r)
				}
			}()
			ct = v.ev(c, &we).T
		}()
		if failed {
			ct = "false"
		}
		v.oblige("ensures", fmt.Sprintf("%s.%d", e.Label, k+1), g, fmt.Sprintf("(=> %s %s)", gt, ct), ret.Pos(), fmt.Sprintf("%s  [conjunct %d with witness %s = %s]", e.Src, k+1, q.Vars[0], wsrc))
	}
	return true
}

func (v *VC) genBinOp(i *ssa.BinOp, g string) {
	x, y := v.val(i.X), v.val(i.Y)
	t := i.X.Type()
	srt := v.sortOf(t)
	isInt := srt == "Int"
	switch i.Op {
	case token.ADD, token.SUB, token.MUL:
		if isInt {
			op := map[token.Token]string{token.ADD: "+", token.SUB: "-", token.MUL: "*"}[i.Op]
			e := fmt.Sprintf("(%s %s %s)", op, x, y)
			lo, hi, _ := intRange(i.Type())
			if lo != "0" && v.contract != nil && v.contract.Wrapping {
				if i.Op != token.MUL {
					// operands are in range, so one correction by 2^w is exact (and far cheaper than mod)
					span := fmt.Sprintf("(+ (- %s %s) 1)", hi, lo)
					v.define(i, fmt.Sprintf("(ite (> %s %s) (- %s %s) (ite (< %s %s) (+ %s %s) %s))", e, hi, e, span, e, lo, e, span, e))
				} else {
					v.define(i, wrapTo(i.Type(), e))
				}
			} else if lo != "0" {
				v.safety("int-overflow", g, fmt.Sprintf("(and (<= %s %s) (<= %s %s))", lo, e, e, hi), i.Pos())
				v.define(i, e)
			} else {
				v.define(i, wrapTo(i.Type(), e))
			}
			return
		}
		if srt == "Str" && i.Op == token.ADD {
			v.useStrCat()
			v.define(i, fmt.Sprintf("(str.cat %s %s)", x, y))
			return
		}
		if srt == "Real" {
			op := map[token.Token]string{token.ADD: "+", token.SUB: "-", token.MUL: "*"}[i.Op]
			v.define(i, fmt.Sprintf("(%s %s %s)", op, x, y))
			return
		}
	case token.QUO, token.REM:
		if isInt {
			v.safety("div-by-zero", g, fmt.Sprintf("(not (= %s 0))", y), i.Pos())
			if isUnsigned(i.Type()) {
				op := "div"
				if i.Op == token.REM {
					op = "mod"
				}
				v.define(i, fmt.Sprintf("(%s %s %s)", op, x, y))
				v.assume(fmt.Sprintf("(and %s (not (= %s 0)))", g, y), fmt.Sprintf("(and (= %s (+ (* %s (div %s %s)) (mod %s %s))) (<= 0 (mod %s %s)) (< (mod %s %s) %s) (<= 0 (div %s %s)) (<= (div %s %s) %s))", x, y, x, y, x, y, x, y, x, y, y, x, y, x, y, x))
				return
			}
			q := fmt.Sprintf("(ite (>= %s 0) (ite (> %s 0) (div %s %s) (- (div %s (- %s)))) (ite (> %s 0) (- (div (- %s) %s)) (div (- %s) (- %s))))", x, y, x, y, x, y, y, x, y, x, y)
			if i.Op == token.QUO {
				v.define(i, q)
			} else {
				v.define(i, fmt.Sprintf("(- %s (* %s %s))", x, y, q))
			}
			return
		}
		if srt == "Real" && i.Op == token.QUO {
			v.define(i, fmt.Sprintf("(/ %s %s)", x, y))
			return
		}
	case token.EQL:
		v.define(i, v.eqTerm(t, x, y))
		return
	case token.NEQ:
		v.define(i, "(not "+v.eqTerm(t, x, y)+")")
		return
	case token.LSS, token.LEQ, token.GTR, token.GEQ:
		if isInt || srt == "Real" {
			op := map[token.Token]string{token.LSS: "<", token.LEQ: "<=", token.GTR: ">", token.GEQ: ">="}[i.Op]
			v.define(i, fmt.Sprintf("(%s %s %s)", op, x, y))
			return
		}
		if srt == "Str" {
			v.useStrLt()
			switch i.Op {
			case token.LSS:
				v.define(i, fmt.Sprintf("(str.lt %s %s)", x, y))
			case token.LEQ:
				v.define(i, fmt.Sprintf("(not (str.lt %s %s))", y, x))
			case token.GTR:
				v.define(i, fmt.Sprintf("(str.lt %s %s)", y, x))
			case token.GEQ:
				v.define(i, fmt.Sprintf("(not (str.lt %s %s))", x, y))
			}
			return
		}
	case token.SHL, token.SHR:
		if c, ok := i.Y.(*ssa.Const); ok && isInt && c.Value != nil {
			k := c.Int64()
			if k >= 0 && k < 64 {
				p := new(strings.Builder)
				fmt.Fprintf(p, "%d", uint64(1)<<uint(k))
				if i.Op == token.SHL {
					v.define(i, wrapTo(i.Type(), fmt.Sprintf("(* %s %s)", x, p.String())))
				} else {
					v.define(i, fmt.Sprintf("(div %s %s)", x, p.String()))
				}
				return
			}
		}
		if isInt {
			nm := "bv.shl"
			if i.Op == token.SHR {
				nm = "bv.shr"
			}
			v.useBitUF(nm)
			v.define(i, fmt.Sprintf("(%s %s %s)", nm, x, y))
			v.assume(g, v.rangeFact(i.Type(), v.val(i)))
			if i.Op == token.SHR {
				v.assume(g, fmt.Sprintf("(=> (>= %s 0) (and (<= 0 %s) (<= %s %s)))", x, v.val(i), v.val(i), x))
			}
			return
		}
	case token.AND, token.OR, token.XOR, token.AND_NOT:
		if isInt {
			if i.Op == token.AND {
				if c, ok := i.Y.(*ssa.Const); ok && c.Value != nil {
					// x & (2^k - 1) == x mod 2^k for non-negative x
					m := c.Int64()
					if m > 0 && (m&(m+1)) == 0 && isUnsigned(t) {
						v.define(i, fmt.Sprintf("(mod %s %d)", x, m+1))
						return
					}
				}
			}
			nm := map[token.Token]string{token.AND: "bv.and", token.OR: "bv.or", token.XOR: "bv.xor", token.AND_NOT: "bv.andnot"}[i.Op]
			v.useBitUF(nm)
			v.define(i, fmt.Sprintf("(%s %s %s)", nm, x, y))
			v.assume(g, v.rangeFact(i.Type(), v.val(i)))
			if i.Op == token.AND {
				v.assume(g, fmt.Sprintf("(=> (and (>= %s 0) (>= %s 0)) (and (<= 0 %s) (<= %s %s) (<= %s %s)))", x, y, v.val(i), v.val(i), x, v.val(i), y))
			}
			return
		}
		if srt == "Bool" {
			op := map[token.Token]string{token.AND: "and", token.OR: "or", token.XOR: "xor"}[i.Op]
			if op != "" {
				v.define(i, fmt.Sprintf("(%s %s %s)", op, x, y))
				return
			}
		}
	}
	v.unsupp("binop %s on %s", i.Op, t)
	v.declare(i)
}

func (v *VC) eqTerm(t types.Type, x, y string) string {
	if _, ok := t.Underlying().(*types.Interface); ok {
		return fmt.Sprintf("(= %s %s)", x, y)
	}
	return fmt.Sprintf("(= %s %s)", x, y)
}

// constCellValue: for a heap cell that holds a parameter (the variable is captured by a closure, so
// SSA spills it), returns the parameter when the cell is written exactly once - by the spill store in
// the entry block - and every other use, here and inside the capturing closures, only reads it.
func constCellValue(a *ssa.Alloc) ssa.Value {
	if a.Block() == nil || a.Block().Index != 0 || a.Referrers() == nil {
		return nil
	}
	var stored ssa.Value
	var onlyReads func(x ssa.Value, depth int) bool
	onlyReads = func(x ssa.Value, depth int) bool {
		if depth > 4 || x.Referrers() == nil {
			return false
		}
		for _, r := range *x.Referrers() {
			switch i := r.(type) {
			case *ssa.DebugRef:
			case *ssa.UnOp:
				if i.Op != token.MUL {
					return false
				}
			case *ssa.Store:
				if x != ssa.Value(a) || i.Addr != x || stored != nil || i.Block().Index != 0 {
					return false
				}
				if _, isParam := i.Val.(*ssa.Parameter); !isParam {
					return false
				}
				stored = i.Val
			case *ssa.MakeClosure:
				fn, ok := i.Fn.(*ssa.Function)
				if !ok {
					return false
				}
				for k, b := range i.Bindings {
					if b == x {
						if k >= len(fn.FreeVars) || !onlyReads(fn.FreeVars[k], depth+1) {
							return false
						}
					}
				}
			default:
				return false
			}
		}
		return true
	}
	if !onlyReads(a, 0) {
		return nil
	}
	return stored
}

// typeParamTest: "the dynamic type of interface value x matches type parameter tp".
func (v *VC) typeParamTest(tp *types.TypeParam, x string) string {
	v.uf("tpmatch", []string{"Int", "Int"}, "Bool")
	return fmt.Sprintf("(and (not (= %s inil)) (tpmatch (iface-tid %s) %d))", x, x, v.typeID(tp))
}
