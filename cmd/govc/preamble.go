package main

import (
	"fmt"
	"sort"
	"strings"
)

func (v *VC) useStrCat()  { v.features["str.cat"] = true }
func (v *VC) useStrLt()   { v.features["str.lt"] = true }
func (v *VC) useStrAt()   { v.features["str.at"] = true }
func (v *VC) useStrSub()  { v.features["str.sub"] = true; v.features["str.at"] = true }
func (v *VC) useBytesOf() { v.features["bytes.str"] = true }
func (v *VC) useBitUF(n string) {
	v.uf(n, []string{"Int", "Int"}, "Int")
}

// Preamble emits sorts, uninterpreted functions and the valid global facts. It is generated after
// the body because declarations are discovered while generating.
func (v *VC) Preamble() string {
	var sb strings.Builder
	// axioms are evaluated first: their terms may introduce string literals and uninterpreted
	// functions that must be declared above them
	type axTerm struct{ label, term string }
	var axTerms []axTerm
	for _, ax := range v.P.db.Axioms {
		if t, ok := v.axiomTerm(ax); ok {
			axTerms = append(axTerms, axTerm{ax.Label, t})
		}
	}
	sb.WriteString("(set-option :produce-models true)\n(set-logic ALL)\n")
	sb.WriteString("(declare-sort Str 0)\n(declare-fun strlen (Str) Int)\n(declare-const str_empty Str)\n(assert (= (strlen str_empty) 0))\n")
	sb.WriteString("(assert (forall ((s Str)) (! (and (>= (strlen s) 0) (<= (strlen s) 9223372036854775807) (=> (= (strlen s) 0) (= s str_empty))) :pattern ((strlen s)))))\n")
	sb.WriteString("(declare-datatypes ((Ptr 0)) (((nilp) (obj (obj-id Int)) (fld (fld-base Ptr) (fld-idx Int)) (elm (elm-base Ptr) (elm-idx Int)))))\n")
	sb.WriteString("(declare-datatypes ((Slice 0)) (((mk-slice (s-base Ptr) (s-off Int) (s-len Int) (s-cap Int)))))\n")
	sb.WriteString("(define-fun nil_slice () Slice (mk-slice nilp 0 0 0))\n")
	sb.WriteString("(declare-datatypes ((Iface 0)) (((inil) (iface-p (ip-type Int) (ip-val Ptr)) (iface-i (ii-type Int) (ii-val Int)) (iface-s (is-type Int) (is-val Str)) (iface-o (io-type Int) (io-id Int)))))\n")
	sb.WriteString("(define-fun iface-ptr ((i Iface)) Ptr (ite ((_ is iface-p) i) (ip-val i) nilp))\n")
	sb.WriteString("(define-fun iface-tid ((i Iface)) Int (ite ((_ is iface-p) i) (ip-type i) (ite ((_ is iface-i) i) (ii-type i) (ite ((_ is iface-s) i) (is-type i) (ite ((_ is iface-o) i) (io-type i) 0)))))\n")
	sb.WriteString("(declare-fun root (Ptr) Int)\n(assert (= (root nilp) 0))\n(assert (forall ((i Int)) (! (= (root (obj i)) i) :pattern ((obj i)))))\n(assert (forall ((p Ptr) (k Int)) (! (= (root (fld p k)) (root p)) :pattern ((fld p k)))))\n(assert (forall ((p Ptr) (k Int)) (! (= (root (elm p k)) (root p)) :pattern ((elm p k)))))\n")
	sb.WriteString("(declare-fun priv (Int) Bool)\n(assert (forall ((i Int)) (! (=> (<= i 0) (not (priv i))) :pattern ((priv i)))))\n")
	sb.WriteString("(define-fun ext ((p Ptr)) Bool (not (priv (root p))))\n")
	sb.WriteString("(declare-fun selem (Slice Int) Ptr)\n(assert (forall ((s Slice) (i Int)) (! (= (selem s i) (elm (s-base s) (+ (s-off s) i))) :pattern ((selem s i)))))\n")
	if v.features["tyof"] {
		sb.WriteString("(declare-fun tyof (Ptr) Int)\n")
	}
	if v.features["implements"] {
		sb.WriteString("(declare-fun implements (Int Int) Bool)\n")
	}
	if v.features["in-window"] {
		sb.WriteString("(declare-fun eidx (Ptr) Int)\n(declare-fun ebase (Ptr) Ptr)\n")
		sb.WriteString("(assert (forall ((b Ptr) (i Int)) (! (and (= (eidx (elm b i)) i) (= (ebase (elm b i)) b)) :pattern ((elm b i)))))\n")
		sb.WriteString("(assert (forall ((q Ptr) (k Int)) (! (and (= (eidx (fld q k)) (eidx q)) (= (ebase (fld q k)) (ebase q))) :pattern ((fld q k)))))\n")
		sb.WriteString("(define-fun in-window ((p Ptr) (s Slice) (lo Int) (hi Int)) Bool (and (= (ebase p) (s-base s)) (<= (+ (s-off s) lo) (eidx p)) (< (eidx p) (+ (s-off s) hi))))\n")
	}
	for _, n := range v.structOrd {
		st := v.structs[n]
		var fs []string
		for i := 0; i < st.NumFields(); i++ {
			fs = append(fs, fmt.Sprintf("(%s-f%d %s)", n, i, v.sortOf(st.Field(i).Type())))
		}
		fmt.Fprintf(&sb, "(declare-datatypes ((%s 0)) (((mk-%s %s))))\n", n, n, strings.Join(fs, " "))
	}
	if v.features["str.cat"] {
		sb.WriteString("(declare-fun str.cat (Str Str) Str)\n")
		sb.WriteString("(assert (forall ((a Str) (b Str)) (! (= (strlen (str.cat a b)) (+ (strlen a) (strlen b))) :pattern ((str.cat a b)))))\n")
		sb.WriteString("(assert (forall ((a Str)) (! (and (= (str.cat a str_empty) a) (= (str.cat str_empty a) a)) :pattern ((strlen a)))))\n")
	}
	if v.features["str.lt"] {
		sb.WriteString("(declare-fun str.ord (Str) Real)\n(declare-fun str.unord (Real) Str)\n")
		sb.WriteString("(assert (forall ((a Str)) (! (= (str.unord (str.ord a)) a) :pattern ((str.ord a)))))\n")
		sb.WriteString("(define-fun str.lt ((a Str) (b Str)) Bool (< (str.ord a) (str.ord b)))\n")
	}
	if v.features["str.at"] {
		sb.WriteString("(declare-fun str.at (Str Int) Int)\n")
		sb.WriteString("(assert (forall ((a Str) (i Int)) (! (and (<= 0 (str.at a i)) (<= (str.at a i) 255)) :pattern ((str.at a i)))))\n")
	}
	if v.features["str.sub"] {
		sb.WriteString("(declare-fun str.sub (Str Int Int) Str)\n")
		sb.WriteString("(assert (forall ((a Str) (i Int) (j Int)) (! (=> (and (<= 0 i) (<= i j) (<= j (strlen a))) (= (strlen (str.sub a i j)) (- j i))) :pattern ((str.sub a i j)))))\n")
		sb.WriteString("(assert (forall ((a Str) (i Int) (j Int) (k Int)) (! (=> (and (<= 0 i) (<= i j) (<= j (strlen a)) (<= 0 k) (< k (- j i))) (= (str.at (str.sub a i j) k) (str.at a (+ i k)))) :pattern ((str.at (str.sub a i j) k)))))\n")
		sb.WriteString("(assert (forall ((a Str)) (! (= (str.sub a 0 (strlen a)) a) :pattern ((str.sub a 0 (strlen a))))))\n")
	}
	if v.features["f2i"] {
		sb.WriteString("(declare-fun f2i (Real) Int)\n")
	}
	if v.features["bytes.str"] {
		sb.WriteString("(declare-fun bytes.str (Slice) Str)\n")
	}
	for _, n := range v.ufOrder {
		sb.WriteString(v.ufs[n] + "\n")
	}
	for _, a := range v.extraAxioms {
		sb.WriteString(a + "\n")
	}
	// globals: distinct pre-existing objects
	var gl []string
	for n := range v.globals {
		gl = append(gl, n)
	}
	sort.Strings(gl)
	for k, n := range gl {
		fmt.Fprintf(&sb, "(define-fun %s () Ptr (obj (- %d)))\n", n, k+1)
	}
	var gc []string
	for n := range v.globalConsts {
		gc = append(gc, n)
	}
	sort.Strings(gc)
	for _, n := range gc {
		fmt.Fprintf(&sb, "(declare-const %s %s)\n", n, v.globalConsts[n])
	}
	for _, f := range v.globalFacts {
		if f != "true" && f != "" {
			fmt.Fprintf(&sb, "(assert %s)\n", f)
		}
	}
	var sent []string
	for n := range v.sentinels {
		sent = append(sent, n)
	}
	sort.Strings(sent)
	if len(sent) > 0 {
		fmt.Fprintf(&sb, "(assert (distinct inil %s))\n", strings.Join(sent, " "))
	}
	// string literals
	type lit struct{ n, s string }
	var lits []lit
	for s, n := range v.strLits {
		lits = append(lits, lit{n, s})
	}
	sort.Slice(lits, func(i, j int) bool { return lits[i].n < lits[j].n })
	var names []string
	for _, l := range lits {
		fmt.Fprintf(&sb, "(declare-const %s Str) ; %q\n", l.n, l.s)
		fmt.Fprintf(&sb, "(assert (= (strlen %s) %d))\n", l.n, len(l.s))
		names = append(names, l.n)
		if v.features["str.at"] && len(l.s) <= 8 {
			for k := 0; k < len(l.s); k++ {
				fmt.Fprintf(&sb, "(assert (= (str.at %s %d) %d))\n", l.n, k, l.s[k])
			}
		}
	}
	if len(names) > 0 {
		fmt.Fprintf(&sb, "(assert (distinct str_empty %s))\n", strings.Join(names, " "))
	}
	if v.features["str.lt"] {
		// literal order is known
		sorted := append([]lit{}, lits...)
		sort.Slice(sorted, func(i, j int) bool { return sorted[i].s < sorted[j].s })
		prev := "str_empty"
		for _, l := range sorted {
			fmt.Fprintf(&sb, "(assert (str.lt %s %s))\n", prev, l.n)
			prev = l.n
		}
		sb.WriteString("(assert (forall ((a Str)) (! (or (= a str_empty) (str.lt str_empty a)) :pattern ((str.ord a)))))\n")
	}
	// entry heaps
	var hk []string
	for k := range v.entryHeap {
		hk = append(hk, k)
	}
	sort.Strings(hk)
	for _, k := range hk {
		n := v.entryHeap[k]
		fmt.Fprintf(&sb, "(declare-const %s %s)\n", n, v.heapSortOf(k))
		if k == clockKey {
			fmt.Fprintf(&sb, "(assert (= %s 0))\n", n)
		}
		srt := v.heapKeys[k]
		if ax := v.mapValClockAxiom(n, k, "0"); ax != "" {
			sb.WriteString(ax + "\n")
		}
		if _, ok := v.mapValTy[k]; ok {
			sb.WriteString(v.heapTypeAxiom(n, k) + "\n")
		}
		if !strings.HasPrefix(srt, "RAW:") {
			if isPtrLike(srt) {
				fmt.Fprintf(&sb, "(assert (forall ((p Ptr)) (! (<= (root %s) 0) :pattern ((select %s p)))))\n", ptrOf(srt, fmt.Sprintf("(select %s p)", n)), n)
			}
			if ax := v.heapTypeAxiom(n, k); ax != "" {
				sb.WriteString(ax + "\n")
			}
		}
	}
	// user axioms whose uninterpreted functions are all in use
	for _, at := range axTerms {
		fmt.Fprintf(&sb, "; axiom %s\n(assert %s)\n", at.label, at.term)
	}
	return sb.String()
}

func collectCalls(e SExpr, out map[string]bool) {
	switch x := e.(type) {
	case SUnary:
		collectCalls(x.X, out)
	case SBinary:
		collectCalls(x.L, out)
		collectCalls(x.R, out)
	case SField:
		collectCalls(x.X, out)
	case SIndex:
		collectCalls(x.X, out)
		collectCalls(x.I, out)
	case SCall:
		out[x.Fn] = true
		for _, a := range x.Args {
			collectCalls(a, out)
		}
	case SMethod:
		collectCalls(x.X, out)
		for _, a := range x.Args {
			collectCalls(a, out)
		}
	case SQuant:
		collectCalls(x.Body, out)
	}
}

func (v *VC) axiomTerm(ax Axiom) (string, bool) {
	e, err := ParseSpec(ax.Src)
	if err != nil {
		v.specErrors = append(v.specErrors, fmt.Sprintf("%s:%d: %v", ax.File, ax.Line, err))
		return "", false
	}
	calls := map[string]bool{}
	collectCalls(e, calls)
	for c := range calls {
		if _, isUF := v.P.db.UFs[c]; isUF {
			if _, used := v.ufs[c]; !used {
				return "", false
			}
		}
	}
	nUF, nErr := len(v.ufOrder), len(v.specErrors)
	env := &SpecEnv{vars: map[string]TV{}, addr: nil, heap: &Heap{m: map[string]string{}, epoch: 0}, bound: map[string]TV{}, before: map[string]TV{}, fn: v.fn}
	t, err := v.evalClause(Clause{Src: ax.Src, File: ax.File, Line: ax.Line}, env)
	if err != nil || len(v.ufOrder) != nUF {
		// the axiom talks about functions this verification condition does not use (or about
		// types that are not in scope here): it is irrelevant, drop what its evaluation declared
		for _, n := range v.ufOrder[nUF:] {
			delete(v.ufs, n)
		}
		v.ufOrder = v.ufOrder[:nUF]
		v.specErrors = v.specErrors[:nErr]
		return "", false
	}
	v.usedAxioms = append(v.usedAxioms, fmt.Sprintf("%s (%s:%d)", ax.Label, shortFile(ax.File), ax.Line))
	return t, true
}

func shortFile(s string) string {
	if i := strings.LastIndex(s, "/"); i >= 0 {
		return s[i+1:]
	}
	return s
}
