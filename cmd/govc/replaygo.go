package main

import (
	"context"
	"encoding/json"
	"fmt"
	"os"
	"os/exec"
	"path/filepath"
	"regexp"
	"strings"
	"time"
)

// ReplayTemplate turns the solver's counterexample for a failed obligation of one function into
// an in-package Go test that runs the real code (injected with `go test -overlay`, nothing is
// written under /repo).
type ReplayTemplate struct {
	Function    string            `json:"function"`
	Obligations []string          `json:"obligations"`
	Pkg         string            `json:"pkg"`
	Template    string            `json:"template"`
	Test        string            `json:"test"`
	Vars        map[string]string `json:"vars"` // placeholder -> spec expression over the pre-state
	Witness     *struct {
		File string `json:"file"`
		Test string `json:"test"`
	} `json:"witness,omitempty"`
}

func loadTemplates() []ReplayTemplate {
	var out []ReplayTemplate
	data, err := os.ReadFile(filepath.Join(verifDir, "replaysrc", "templates.json"))
	if err != nil {
		return nil
	}
	json.Unmarshal(data, &out)
	return out
}

func templatesFor(fn string) []ReplayTemplate {
	var out []ReplayTemplate
	for _, t := range loadTemplates() {
		if t.Function == fn {
			out = append(out, t)
		}
	}
	return out
}

// replayVarTerms evaluates the template variables of fn to SMT terms over the entry state.
func (v *VC) replayVarTerms() map[string]string {
	out := map[string]string{}
	for _, t := range templatesFor(fnKey(v.fn)) {
		for name, expr := range t.Vars {
			term, err := v.evalClause(Clause{Src: expr, File: "templates.json"}, v.preEnv)
			if err == nil {
				out[name] = term
			}
		}
	}
	return out
}

var intVal = regexp.MustCompile(`^\(?\s*(-)?\s*\(?(-)?\s*([0-9]+)\)?\s*\)?$`)

func parseSMTInt(s string) (string, bool) {
	s = strings.TrimSpace(s)
	s = strings.ReplaceAll(s, "(", " ")
	s = strings.ReplaceAll(s, ")", " ")
	f := strings.Fields(s)
	switch len(f) {
	case 1:
		if regexp.MustCompile(`^[0-9]+$`).MatchString(f[0]) {
			return f[0], true
		}
		if f[0] == "true" || f[0] == "false" {
			return f[0], true
		}
	case 2:
		if f[0] == "-" && regexp.MustCompile(`^[0-9]+$`).MatchString(f[1]) {
			return "-" + f[1], true
		}
	}
	return "", false
}

// getValues asks z3 for the values of terms in a model of query.
func getValues(query string, terms map[string]string, dropQuantified bool) (map[string]string, bool) {
	var names, ts []string
	for n, t := range terms {
		names = append(names, n)
		ts = append(ts, t)
	}
	if len(ts) == 0 {
		return nil, false
	}
	q := query
	if dropQuantified {
		var sb strings.Builder
		for _, line := range strings.Split(query, "\n") {
			if strings.HasPrefix(line, "(assert") && strings.Contains(line, "(forall ") {
				continue
			}
			sb.WriteString(line + "\n")
		}
		q = sb.String()
	}
	var sb strings.Builder
	sb.WriteString(q)
	sb.WriteString("(check-sat)\n")
	for _, t := range ts {
		fmt.Fprintf(&sb, "(get-value (%s))\n", t)
	}
	tmp, _ := os.CreateTemp("", "govc-model-*.smt2")
	tmp.WriteString(sb.String())
	tmp.Close()
	defer os.Remove(tmp.Name())
	ctx, cancel := context.WithTimeout(context.Background(), 25*time.Second)
	defer cancel()
	out, _ := exec.CommandContext(ctx, "z3-new", "-T:20", tmp.Name()).Output()
	lines := strings.Split(strings.TrimSpace(string(out)), "\n")
	if len(lines) == 0 || strings.TrimSpace(lines[0]) != "sat" {
		return nil, false
	}
	// each get-value answer: ((term value)) possibly on several lines; re-join and split by "))"
	rest := strings.Join(lines[1:], " ")
	vals := map[string]string{}
	idx := 0
	for _, n := range names {
		// find the next "((" ... matching
		start := strings.Index(rest[idx:], "((")
		if start < 0 {
			break
		}
		start += idx
		depth, end := 0, -1
		for i := start; i < len(rest); i++ {
			if rest[i] == '(' {
				depth++
			} else if rest[i] == ')' {
				depth--
				if depth == 0 {
					end = i
					break
				}
			}
		}
		if end < 0 {
			break
		}
		body := rest[start+2 : end-1] // term value
		idx = end + 1
		t := terms[n]
		val := strings.TrimSpace(strings.TrimPrefix(strings.TrimSpace(body), t))
		if iv, ok := parseSMTInt(val); ok {
			vals[n] = iv
		}
	}
	return vals, len(vals) == len(names)
}

func runGoTest(pkg, file, content, test string) (failed bool, output string) {
	dst := filepath.Join(repoDir, pkg, "zz_govc_replay_test.go")
	src := file
	if content != "" {
		os.WriteFile(file, []byte(content), 0o644)
	}
	ov, _ := os.CreateTemp("", "govc-ov-*.json")
	extra := ""
	if eo := os.Getenv("GOVC_EXTRA_OVERLAY"); eo != "" {
		// "<file in /repo>=<replacement>": used by the self-test to run a bounded stand-in on a mutant
		if i := strings.Index(eo, "="); i > 0 {
			extra = fmt.Sprintf(", %q: %q", eo[:i], eo[i+1:])
		}
	}
	fmt.Fprintf(ov, `{"Replace": {%q: %q%s}}`, dst, src, extra)
	ov.Close()
	defer os.Remove(ov.Name())
	ctx, cancel := context.WithTimeout(context.Background(), 180*time.Second)
	defer cancel()
	cmd := exec.CommandContext(ctx, "go", "test", "-overlay", ov.Name(), "-vet=off", "-timeout", "60s", "-count=1", "-run", "^"+test+"$", "./"+pkg)
	cmd.Dir = repoDir
	var env []string
	for _, e := range os.Environ() {
		if strings.HasPrefix(e, "GOSUMDB=") || strings.HasPrefix(e, "GOTOOLCHAIN=") {
			continue
		}
		env = append(env, e)
	}
	cmd.Env = append(env, "GOFLAGS=-mod=mod", "GOPROXY=off")
	out, err := cmd.CombinedOutput()
	s := string(out)
	if len(s) > 3000 {
		s = s[:1500] + "\n...\n" + s[len(s)-1500:]
	}
	if err != nil && (strings.Contains(s, "--- FAIL") || strings.Contains(s, "panic:") || strings.Contains(s, "fatal error")) {
		return true, s
	}
	return false, s
}

// replayOnRealCode runs the model (or, failing that, the recorded witness) against the real code.
func replayOnRealCode(P *Program, id, fn string, o Oblig, query string, terms map[string]string, sb *strings.Builder) (bool, string) {
	for _, t := range templatesFor(fn) {
		match := len(t.Obligations) == 0
		for _, p := range t.Obligations {
			if strings.HasPrefix(o.Name, p) {
				match = true
			}
		}
		if !match {
			continue
		}
		dir := filepath.Join(verifDir, "replays", id)
		os.MkdirAll(dir, 0o755)
		if t.Template != "" {
			tmpl, err := os.ReadFile(filepath.Join(verifDir, t.Template))
			if err == nil {
				for _, drop := range []bool{false, true} {
					vals, ok := getValues(query, terms, drop)
					if !ok {
						continue
					}
					src := string(tmpl)
					for n, val := range vals {
						src = strings.ReplaceAll(src, "{{"+n+"}}", val)
					}
					file := filepath.Join(dir, sanitize(shortKey(fn)+"__"+o.Name)+"_test.go")
					failed, out := runGoTest(t.Pkg, file, src, t.Test)
					fmt.Fprintf(sb, "replay with model values %v (quantified assumptions dropped: %v): reproduced=%v\n%s\n", vals, drop, failed, out)
					if failed {
						return true, file
					}
				}
			}
		}
		if t.Witness != nil {
			wf := filepath.Join(verifDir, t.Witness.File)
			failed, out := runGoTest(t.Pkg, wf, "", t.Witness.Test)
			fmt.Fprintf(sb, "replay of the recorded witness %s: reproduced=%v\n%s\n", t.Witness.Test, failed, out)
			if failed {
				return true, wf
			}
		}
	}
	return false, ""
}
