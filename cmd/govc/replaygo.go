package main

import "strings"

// replayOnRealCode: per-function replay harnesses (filled in as properties are added).
func replayOnRealCode(P *Program, id, fn string, o Oblig, model string, sb *strings.Builder) bool {
	return false
}
