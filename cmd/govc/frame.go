package main

import (
	"fmt"
	"go/token"
	"strconv"
	"strings"

	"golang.org/x/tools/go/ssa"
)

// checkFrame justifies a "modifies nothing" clause of an in-repo function syntactically: no store
// or map update through memory the function did not allocate itself, and every callee is itself
// (assumed or checked) frame-free. Conservative: anything unclear is a violation.
func (P *Program) checkFrame(fn *ssa.Function, depth int) []string {
	var bad []string
	var local func(x ssa.Value) bool
	local = func(x ssa.Value) bool {
		switch a := x.(type) {
		case *ssa.Alloc, *ssa.MakeMap, *ssa.MakeSlice:
			return true
		case *ssa.FieldAddr:
			return local(a.X)
		case *ssa.IndexAddr:
			return local(a.X)
		case *ssa.Slice:
			return local(a.X)
		}
		return false
	}
	pos := func(p token.Pos) string {
		pp := fn.Prog.Fset.Position(p)
		return fmt.Sprintf("%s:%d", shortFile(pp.Filename), pp.Line)
	}
	call := func(c *ssa.CallCommon, p token.Pos) {
		if bi, ok := c.Value.(*ssa.Builtin); ok {
			switch bi.Name() {
			case "append", "copy":
				if !local(c.Args[0]) {
					if _, isNilConst := c.Args[0].(*ssa.Const); !isNilConst {
						// appending to a slice held in a local variable that started nil/empty is
						// still a write into a possibly shared backing array: flag it
						bad = append(bad, pos(p)+": "+bi.Name()+" into a slice not allocated here")
					}
				}
			case "delete", "clear":
				if !local(c.Args[0]) {
					bad = append(bad, pos(p)+": "+bi.Name()+" on a map not allocated here")
				}
			}
			return
		}
		if c.IsInvoke() {
			ct := P.db.Contracts[ifaceMethodKey(c)]
			if ct == nil || !ct.ModNothing {
				bad = append(bad, pos(p)+": interface call without a frame-free contract: "+ifaceMethodKey(c))
			}
			return
		}
		callee := c.StaticCallee()
		if callee == nil {
			if mc, ok := c.Value.(*ssa.MakeClosure); ok {
				callee = mc.Fn.(*ssa.Function)
			}
		}
		if callee == nil {
			bad = append(bad, pos(p)+": dynamic call")
			return
		}
		if ct := P.contractFor(callee); ct != nil {
			if ct.ModNothing {
				return
			}
			// a callee that writes only into one argument object is harmless when that object was
			// allocated by the function under check
			if len(ct.Mods) > 0 {
				ok := true
				for _, m := range ct.Mods {
					if m.Object == "" || !strings.HasPrefix(m.Object, "arg") {
						ok = false
						break
					}
					k, err := strconv.Atoi(m.Object[3:])
					if err != nil || k >= len(c.Args) || !local(c.Args[k]) {
						ok = false
						break
					}
				}
				if ok {
					return
				}
			}
			bad = append(bad, pos(p)+": callee contract is not frame-free: "+fnKey(callee))
			return
		}
		if callee.Blocks != nil && P.inRepo(callee) && depth < 4 {
			for _, b := range P.checkFrame(callee, depth+1) {
				bad = append(bad, fnKey(callee)+" -> "+b)
			}
			return
		}
		bad = append(bad, pos(p)+": uncontracted callee: "+fnKey(callee))
	}
	for _, b := range fn.Blocks {
		for _, in := range b.Instrs {
			switch i := in.(type) {
			case *ssa.Store:
				if !local(i.Addr) {
					bad = append(bad, pos(i.Pos())+": store through memory not allocated here")
				}
			case *ssa.MapUpdate:
				if !local(i.Map) {
					bad = append(bad, pos(i.Pos())+": map update on a map not allocated here")
				}
			case *ssa.Call:
				call(&i.Call, i.Pos())
			case *ssa.Defer:
				call(&i.Call, i.Pos())
			case *ssa.Go:
				bad = append(bad, pos(i.Pos())+": go statement")
			case *ssa.Send:
				bad = append(bad, pos(i.Pos())+": channel send")
			}
		}
	}
	return bad
}

// ghostMod: ghost variables a call of fn may change (through the assumed `sets` of the methods it
// reaches). "*" means all. Used to havoc exactly those ghosts at a contract-based call.
func (P *Program) ghostMod(fn *ssa.Function, stack map[*ssa.Function]bool) map[string]bool {
	out := map[string]bool{}
	if fn == nil {
		out["*"] = true
		return out
	}
	if m, ok := P.ghostMemo[fn]; ok {
		return m
	}
	if stack[fn] {
		return out
	}
	stack[fn] = true
	defer delete(stack, fn)
	ct := P.contractFor(fn)
	if fn.Blocks == nil || (ct != nil && ct.Trusted) {
		if ct == nil {
			out["*"] = true
		} else {
			for _, s := range ct.Sets {
				out[s.Var] = true
			}
			for _, e := range ct.Ensures {
				for g := range P.db.Ghosts {
					if mentions(e.Src, g) {
						out[g] = true
					}
				}
			}
		}
		P.ghostMemo[fn] = out
		return out
	}
	add := func(m map[string]bool) {
		for k := range m {
			out[k] = true
		}
	}
	call := func(c *ssa.CallCommon) {
		if _, ok := c.Value.(*ssa.Builtin); ok {
			return
		}
		if c.IsInvoke() {
			ict := P.db.Contracts[ifaceMethodKey(c)]
			if ict == nil {
				out["*"] = true
				return
			}
			for _, s := range ict.Sets {
				out[s.Var] = true
			}
			return
		}
		callee := c.StaticCallee()
		if callee == nil {
			if mc, ok := c.Value.(*ssa.MakeClosure); ok {
				callee = mc.Fn.(*ssa.Function)
			}
		}
		if callee == nil {
			out["*"] = true
			return
		}
		if cct := P.contractFor(callee); cct == nil && (callee.Blocks == nil || !P.inRepo(callee)) {
			out["*"] = true
			return
		}
		add(P.ghostMod(callee, stack))
	}
	for _, b := range fn.Blocks {
		for _, in := range b.Instrs {
			switch i := in.(type) {
			case *ssa.Call:
				call(&i.Call)
			case *ssa.Defer:
				call(&i.Call)
			case *ssa.MakeClosure:
				if f, ok := i.Fn.(*ssa.Function); ok {
					add(P.ghostMod(f, stack))
				}
			}
		}
	}
	P.ghostMemo[fn] = out
	return out
}

func mentions(src, ident string) bool {
	for i := 0; i+len(ident) <= len(src); i++ {
		if src[i:i+len(ident)] == ident {
			before := i == 0 || !isIdentChar(src[i-1])
			after := i+len(ident) == len(src) || !isIdentChar(src[i+len(ident)])
			if before && after {
				return true
			}
		}
	}
	return false
}

func isIdentChar(c byte) bool {
	return c == '_' || (c >= 'a' && c <= 'z') || (c >= 'A' && c <= 'Z') || (c >= '0' && c <= '9')
}
