package main

import (
	"fmt"
	"go/token"
	"go/types"
	"strconv"
	"strings"

	"golang.org/x/tools/go/ssa"
)

// checkFrame justifies a "modifies nothing" clause of an in-repo function syntactically: no store
// or map update through memory the function did not allocate itself, and every callee is itself
// (assumed or checked) frame-free. Conservative: anything unclear is a violation.
func (P *Program) checkFrame(fn *ssa.Function, depth int) []string {
	var bad []string
	var local func(x ssa.Value) bool
	phiSeen := map[*ssa.Phi]bool{}
	loadSeen := map[*ssa.UnOp]bool{}
	local = func(x ssa.Value) bool {
		switch a := x.(type) {
		case *ssa.Alloc, *ssa.MakeMap, *ssa.MakeSlice:
			return true
		case *ssa.FieldAddr:
			return local(a.X)
		case *ssa.IndexAddr:
			return local(a.X)
		case *ssa.Slice:
			return local(a.X)
		case *ssa.Phi:
			if phiSeen[a] {
				return true
			}
			phiSeen[a] = true
			for _, e := range a.Edges {
				if c, isConst := e.(*ssa.Const); isConst && c.IsNil() {
					continue
				}
				if !local(e) {
					return false
				}
			}
			return true
		case *ssa.UnOp:
			// a load from a cell of a local variable that never escapes: local if everything ever
			// stored into that cell is local (or nil)
			if a.Op != token.MUL {
				return false
			}
			if loadSeen[a] {
				return true
			}
			loadSeen[a] = true
			root, path, ok := allocPath(a.X)
			if !ok || allocEscapes(root) {
				return false
			}
			for _, b := range fn.Blocks {
				for _, in := range b.Instrs {
					st, isStore := in.(*ssa.Store)
					if !isStore {
						continue
					}
					r2, p2, ok2 := allocPath(st.Addr)
					if !ok2 || r2 != root || !(pathPrefix(p2, path) || pathPrefix(path, p2)) {
						continue
					}
					if c, isConst := st.Val.(*ssa.Const); isConst && (c.IsNil() || c.Value == nil) {
						continue
					}
					if len(p2) != len(path) || !local(st.Val) {
						return false
					}
				}
			}
			return true
		case *ssa.Call:
			// append(local, ...) is local: same backing array or a fresh one
			if bi, ok := a.Call.Value.(*ssa.Builtin); ok && bi.Name() == "append" {
				if c, isConst := a.Call.Args[0].(*ssa.Const); isConst && c.IsNil() {
					return true
				}
				return local(a.Call.Args[0])
			}
			// appender-style callee: its contract confines its writes to argument objects that are
			// local here; its slice result lies in such an object or in fresh memory (assumed)
			if callee := a.Call.StaticCallee(); callee != nil {
				if ct := P.contractFor(callee); ct != nil && len(ct.Mods) > 0 && ct.ResultInArg {
					for _, m := range ct.Mods {
						if !strings.HasPrefix(m.Object, "arg") {
							return false
						}
						k, err := strconv.Atoi(m.Object[3:])
						if err != nil || k >= len(a.Call.Args) || !local(a.Call.Args[k]) {
							return false
						}
					}
					return true
				}
			}
		}
		return false
	}
	pos := func(p token.Pos) string {
		pp := fn.Prog.Fset.Position(p)
		return fmt.Sprintf("%s:%d", shortFile(pp.Filename), pp.Line)
	}
	call := func(c *ssa.CallCommon, p token.Pos) {
		if bi, ok := c.Value.(*ssa.Builtin); ok {
			switch bi.Name() {
			case "append", "copy":
				if !local(c.Args[0]) {
					if _, isNilConst := c.Args[0].(*ssa.Const); !isNilConst {
						// appending to a slice held in a local variable that started nil/empty is
						// still a write into a possibly shared backing array: flag it
						bad = append(bad, pos(p)+": "+bi.Name()+" into a slice not allocated here")
					}
				}
			case "delete", "clear":
				if !local(c.Args[0]) {
					bad = append(bad, pos(p)+": "+bi.Name()+" on a map not allocated here")
				}
			}
			return
		}
		if c.IsInvoke() {
			ct := P.db.Contracts[ifaceMethodKey(c)]
			if ct == nil || !ct.ModNothing {
				bad = append(bad, pos(p)+": interface call without a frame-free contract: "+ifaceMethodKey(c))
			}
			return
		}
		callee := c.StaticCallee()
		if callee == nil {
			if mc, ok := c.Value.(*ssa.MakeClosure); ok {
				callee = mc.Fn.(*ssa.Function)
			}
		}
		if callee == nil {
			for _, k := range []string{fieldFuncVarKey(c.Value), globalFuncVarKey(c.Value), funcTypeKey(c.Value)} {
				if k != "" {
					if fct := P.db.Contracts[k]; fct != nil && fct.ModNothing {
						return
					}
				}
			}
			bad = append(bad, pos(p)+": dynamic call")
			return
		}
		if ct := P.contractFor(callee); ct != nil {
			if ct.ModNothing {
				return
			}
			// a callee that writes only into one argument object is harmless when that object was
			// allocated by the function under check
			if len(ct.Mods) > 0 {
				ok := true
				for _, m := range ct.Mods {
					obj := m.Object
					if obj == "" {
						// "younger argK": only objects at least as young as a local allocation,
						// i.e. that allocation and what the callee allocates
						obj = m.Younger
					}
					if obj == "" || !strings.HasPrefix(obj, "arg") {
						ok = false
						break
					}
					k, err := strconv.Atoi(obj[3:])
					if err != nil || k >= len(c.Args) || !local(c.Args[k]) {
						ok = false
						break
					}
				}
				if ok {
					return
				}
			}
			bad = append(bad, pos(p)+": callee contract is not frame-free: "+fnKey(callee))
			return
		}
		if callee.Blocks != nil && P.inRepo(callee) && depth < 4 {
			for _, b := range P.checkFrame(callee, depth+1) {
				bad = append(bad, fnKey(callee)+" -> "+b)
			}
			return
		}
		bad = append(bad, pos(p)+": uncontracted callee: "+fnKey(callee))
	}
	for _, b := range fn.Blocks {
		for _, in := range b.Instrs {
			switch i := in.(type) {
			case *ssa.Store:
				if !local(i.Addr) {
					bad = append(bad, pos(i.Pos())+": store through memory not allocated here")
				}
			case *ssa.MapUpdate:
				if !local(i.Map) {
					bad = append(bad, pos(i.Pos())+": map update on a map not allocated here")
				}
			case *ssa.Call:
				call(&i.Call, i.Pos())
			case *ssa.Defer:
				call(&i.Call, i.Pos())
			case *ssa.Go:
				bad = append(bad, pos(i.Pos())+": go statement")
			case *ssa.Send:
				bad = append(bad, pos(i.Pos())+": channel send")
			}
		}
	}
	return bad
}

// ghostMod: ghost variables a call of fn may change (through the assumed `sets` of the methods it
// reaches). "*" means all. Used to havoc exactly those ghosts at a contract-based call.
func (P *Program) ghostMod(fn *ssa.Function, stack map[*ssa.Function]bool) map[string]bool {
	out := map[string]bool{}
	if fn == nil {
		out["*"] = true
		return out
	}
	if m, ok := P.ghostMemo[fn]; ok {
		return m
	}
	if stack[fn] {
		return out
	}
	stack[fn] = true
	defer delete(stack, fn)
	ct := P.contractFor(fn)
	if fn.Blocks == nil || (ct != nil && ct.Trusted) {
		if ct == nil {
			out["*"] = true
		} else {
			for _, s := range ct.Sets {
				out[s.Var] = true
			}
			for _, e := range ct.Ensures {
				for g := range P.db.Ghosts {
					if mentions(e.Src, g) {
						out[g] = true
					}
				}
			}
		}
		P.ghostMemo[fn] = out
		return out
	}
	add := func(m map[string]bool) {
		for k := range m {
			out[k] = true
		}
	}
	// the function's own `sets` are applied at every call of it, whatever its body reaches
	if ct != nil {
		for _, s := range ct.Sets {
			out[s.Var] = true
		}
	}
	call := func(c *ssa.CallCommon) {
		if _, ok := c.Value.(*ssa.Builtin); ok {
			return
		}
		if c.IsInvoke() {
			ict := P.db.Contracts[ifaceMethodKey(c)]
			if ict == nil {
				out["*"] = true
				return
			}
			for _, s := range ict.Sets {
				out[s.Var] = true
			}
			return
		}
		callee := c.StaticCallee()
		if callee == nil {
			if mc, ok := c.Value.(*ssa.MakeClosure); ok {
				callee = mc.Fn.(*ssa.Function)
			}
		}
		if callee == nil {
			out["*"] = true
			return
		}
		if cct := P.contractFor(callee); cct == nil && (callee.Blocks == nil || !P.inRepo(callee)) {
			out["*"] = true
			return
		}
		add(P.ghostMod(callee, stack))
	}
	for _, b := range fn.Blocks {
		for _, in := range b.Instrs {
			switch i := in.(type) {
			case *ssa.Call:
				call(&i.Call)
			case *ssa.Defer:
				call(&i.Call)
			case *ssa.MakeClosure:
				if f, ok := i.Fn.(*ssa.Function); ok {
					add(P.ghostMod(f, stack))
				}
			}
		}
	}
	P.ghostMemo[fn] = out
	return out
}

func mentions(src, ident string) bool {
	for i := 0; i+len(ident) <= len(src); i++ {
		if src[i:i+len(ident)] == ident {
			before := i == 0 || !isIdentChar(src[i-1])
			after := i+len(ident) == len(src) || !isIdentChar(src[i+len(ident)])
			if before && after {
				return true
			}
		}
	}
	return false
}

func isIdentChar(c byte) bool {
	return c == '_' || (c >= 'a' && c <= 'z') || (c >= 'A' && c <= 'Z') || (c >= '0' && c <= '9')
}

// checkModFrame justifies a frame made only of "modifies fields ..." and kinds-only "modifies kinds ..."
// clauses against the body, syntactically: every store goes through memory allocated here, or through
// a field address T.f that is listed, or (map updates, append, copy) into a heap kind that is listed;
// every callee has a frame that is contained in this one. Conservative. Returns nil when the frame has
// object/younger clauses (those stay assumed).
func (P *Program) checkModFrame(fn *ssa.Function, ct *Contract, mapKey func(*types.Map) (string, string), leafKinds func(types.Type) []string) (bad []string, checkable bool) {
	fields := map[string]bool{}
	kinds := map[string]bool{}
	neg := false
	for _, m := range ct.Mods {
		if m.Object != "" || m.Younger != "" {
			return nil, false
		}
		for _, f := range m.Fields {
			fields[f] = true
		}
		for _, k := range m.Kinds {
			if strings.HasPrefix(k, "!") {
				neg = true
			}
			kinds[k] = true
		}
	}
	if neg || len(fields) == 0 {
		// frames without a fields clause predate this check and stay assumed (reported as such)
		return nil, false
	}
	var local func(x ssa.Value) bool
	seen := map[ssa.Value]bool{}
	local = func(x ssa.Value) bool {
		switch a := x.(type) {
		case *ssa.Alloc, *ssa.MakeMap, *ssa.MakeSlice:
			return true
		case *ssa.FieldAddr:
			return local(a.X)
		case *ssa.IndexAddr:
			return local(a.X)
		case *ssa.Slice:
			return local(a.X)
		case *ssa.Phi:
			if seen[a] {
				return true
			}
			seen[a] = true
			for _, e := range a.Edges {
				if !local(e) {
					return false
				}
			}
			return true
		}
		return false
	}
	pos := func(p token.Pos) string {
		pp := fn.Prog.Fset.Position(p)
		return fmt.Sprintf("%s:%d", shortFile(pp.Filename), pp.Line)
	}
	fieldName := func(fa *ssa.FieldAddr) string {
		pt, ok := fa.X.Type().Underlying().(*types.Pointer)
		if !ok {
			return ""
		}
		st, ok := pt.Elem().Underlying().(*types.Struct)
		if !ok {
			return ""
		}
		tn := types.TypeString(pt.Elem(), func(p *types.Package) string {
			if fn.Pkg != nil && p == fn.Pkg.Pkg {
				return ""
			}
			return p.Name()
		})
		return tn + "." + st.Field(fa.Field).Name()
	}
	allKinds := func(t types.Type) bool {
		for _, k := range leafKinds(t) {
			if !kinds[k] {
				return false
			}
		}
		return true
	}
	var walk func(f *ssa.Function, depth int, via string)
	call := func(f *ssa.Function, c *ssa.CallCommon, p token.Pos, depth int, via string) {
		if bi, ok := c.Value.(*ssa.Builtin); ok {
			switch bi.Name() {
			case "append", "copy":
				if !local(c.Args[0]) {
					if k, isConst := c.Args[0].(*ssa.Const); isConst && k.IsNil() {
						return
					}
					if sl, ok := c.Args[0].Type().Underlying().(*types.Slice); ok && allKinds(sl.Elem()) {
						return
					}
					bad = append(bad, via+pos(p)+": "+bi.Name()+" into a slice not allocated here and of a kind not listed")
				}
			case "delete", "clear":
				if mt, ok := c.Args[0].Type().Underlying().(*types.Map); ok && !local(c.Args[0]) {
					dk, vk := mapKey(mt)
					if !kinds[dk] || !kinds[vk] {
						bad = append(bad, via+pos(p)+": "+bi.Name()+" on a map whose kind is not listed: "+dk)
					}
				}
			}
			return
		}
		if c.IsInvoke() {
			ict := P.db.Contracts[ifaceMethodKey(c)]
			if ict == nil || !ict.ModNothing {
				bad = append(bad, via+pos(p)+": interface call without a frame-free contract: "+ifaceMethodKey(c))
			}
			return
		}
		callee := c.StaticCallee()
		var cct *Contract
		if callee == nil {
			for _, k := range []string{fieldFuncVarKey(c.Value), globalFuncVarKey(c.Value), funcTypeKey(c.Value)} {
				if k != "" && P.db.Contracts[k] != nil {
					cct = P.db.Contracts[k]
				}
			}
			if cct == nil {
				bad = append(bad, via+pos(p)+": dynamic call")
				return
			}
		} else {
			cct = P.contractFor(callee)
		}
		calleeName := "function value"
		if callee != nil {
			calleeName = fnKey(callee)
		}
		if cct != nil && (cct.ModNothing || len(cct.Mods) > 0) {
			if cct.ModNothing {
				return
			}
			for _, m := range cct.Mods {
				if m.Object != "" || m.Younger != "" {
					bad = append(bad, via+pos(p)+": callee frame has object/younger clauses: "+calleeName)
					return
				}
				for _, f2 := range m.Fields {
					if !fields[f2] {
						bad = append(bad, via+pos(p)+": callee "+shortKey(calleeName)+" writes field "+f2+" which is not listed")
					}
				}
				for _, k2 := range m.Kinds {
					if !kinds[k2] {
						bad = append(bad, via+pos(p)+": callee "+shortKey(calleeName)+" writes kind "+k2+" which is not listed")
					}
				}
			}
			return
		}
		if callee == nil {
			bad = append(bad, via+pos(p)+": dynamic call")
			return
		}
		if callee.Blocks != nil && P.inRepo(callee) && depth < 4 {
			walk(callee, depth+1, via+shortKey(fnKey(callee))+" -> ")
			return
		}
		bad = append(bad, via+pos(p)+": uncontracted callee: "+fnKey(callee))
	}
	walk = func(f *ssa.Function, depth int, via string) {
		for _, b := range f.Blocks {
			for _, in := range b.Instrs {
				switch i := in.(type) {
				case *ssa.Store:
					if local(i.Addr) {
						continue
					}
					if fa, ok := i.Addr.(*ssa.FieldAddr); ok && fields[fieldName(fa)] {
						continue
					}
					bad = append(bad, via+pos(i.Pos())+": store outside the listed fields")
				case *ssa.MapUpdate:
					if local(i.Map) {
						continue
					}
					mt := i.Map.Type().Underlying().(*types.Map)
					dk, vk := mapKey(mt)
					if !kinds[dk] || !kinds[vk] {
						bad = append(bad, via+pos(i.Pos())+": update of a map whose kind is not listed: "+dk)
					}
				case *ssa.Call:
					call(f, &i.Call, i.Pos(), depth, via)
				case *ssa.Defer:
					call(f, &i.Call, i.Pos(), depth, via)
				case *ssa.Go:
					bad = append(bad, via+pos(i.Pos())+": go statement")
				case *ssa.Send:
					bad = append(bad, via+pos(i.Pos())+": channel send")
				}
			}
		}
	}
	walk(fn, 0, "")
	return bad, true
}

// allocPath resolves an address of the form &alloc.f1.f2... to its variable and field path. The
// variable may be reached through a private pointer cell that is assigned exactly once with a fresh
// allocation (p := &T{...}; ... p.f ...).
func allocPath(x ssa.Value) (*ssa.Alloc, []int, bool) {
	switch a := x.(type) {
	case *ssa.Alloc:
		return a, nil, true
	case *ssa.FieldAddr:
		r, p, ok := allocPath(a.X)
		if !ok {
			return nil, nil, false
		}
		return r, append(append([]int{}, p...), a.Field), true
	case *ssa.UnOp:
		if a.Op != token.MUL {
			return nil, nil, false
		}
		cell, ok := a.X.(*ssa.Alloc)
		if !ok || allocEscapes(cell) {
			return nil, nil, false
		}
		if tgt := singleAllocStored(cell); tgt != nil {
			return tgt, nil, true
		}
	}
	return nil, nil, false
}

// singleAllocStored: the one allocation ever stored into a private pointer cell (nil if the cell is
// assigned anything else).
func singleAllocStored(cell *ssa.Alloc) *ssa.Alloc {
	var tgt *ssa.Alloc
	refs := cell.Referrers()
	if refs == nil {
		return nil
	}
	for _, r := range *refs {
		st, ok := r.(*ssa.Store)
		if !ok || st.Addr != cell {
			continue
		}
		if c, isConst := st.Val.(*ssa.Const); isConst && c.IsNil() {
			continue
		}
		a, ok := st.Val.(*ssa.Alloc)
		if !ok || (tgt != nil && tgt != a) {
			return nil
		}
		tgt = a
	}
	return tgt
}

func pathPrefix(a, b []int) bool {
	if len(a) > len(b) {
		return false
	}
	for i := range a {
		if a[i] != b[i] {
			return false
		}
	}
	return true
}

// allocEscapes: the address of the variable (or of one of its fields) is used for anything but
// loads, stores into it, further field addressing, being returned, or being kept in a private
// pointer cell whose loads are used in the same ways.
func allocEscapes(a *ssa.Alloc) bool {
	seen := map[ssa.Value]bool{}
	var esc func(v ssa.Value) bool
	esc = func(v ssa.Value) bool {
		if seen[v] {
			return false
		}
		seen[v] = true
		refs := v.Referrers()
		if refs == nil {
			return true
		}
		for _, r := range *refs {
			switch u := r.(type) {
			case *ssa.Store:
				if u.Val == v {
					cell, ok := u.Addr.(*ssa.Alloc)
					if !ok || cell == a {
						return true
					}
					// the cell must itself be private, and every pointer loaded from it is an alias
					crefs := cell.Referrers()
					if crefs == nil {
						return true
					}
					for _, cr := range *crefs {
						switch cu := cr.(type) {
						case *ssa.Store:
							if cu.Val == cell {
								return true
							}
						case *ssa.UnOp:
							if cu.Op != token.MUL || esc(cu) {
								return true
							}
						case *ssa.DebugRef:
						default:
							return true
						}
					}
				}
			case *ssa.UnOp:
				if u.Op != token.MUL {
					return true
				}
			case *ssa.FieldAddr:
				if esc(u) {
					return true
				}
			case *ssa.Return, *ssa.DebugRef:
			default:
				return true
			}
		}
		return false
	}
	return esc(a)
}
