package main

import (
	"fmt"
	"context"
	"crypto/sha256"
	"encoding/hex"
	"encoding/json"
	"os"
	"os/exec"
	"path/filepath"
	"strings"
	"sync"
	"time"
)

type SolveResult struct {
	Status string  `json:"status"` // unsat | sat | unknown
	Solver string  `json:"solver"`
	Secs   float64 `json:"secs"`
	Cached bool    `json:"cached"`
	Model  string  `json:"model,omitempty"`
}

type Solver struct {
	cacheDir string
	timeout  time.Duration
	extend   bool // re-run a timed-out query once with a longer limit
	mu       sync.Mutex
	hits     int
	secs     map[string]float64
	count    map[string]int
	tmpDir   string
}

func NewSolver(cacheDir string, timeout time.Duration) *Solver {
	os.MkdirAll(cacheDir, 0o755)
	tmp, _ := os.MkdirTemp("", "govc-q-")
	return &Solver{cacheDir: cacheDir, timeout: timeout, secs: map[string]float64{}, count: map[string]int{}, tmpDir: tmp}
}

func (s *Solver) Close() { os.RemoveAll(s.tmpDir) }

const solverVersions = "z3-new5.1.0|cvc5-1.0.3|z3-4.8.12|v3"

func (s *Solver) key(q string) string {
	h := sha256.Sum256([]byte(solverVersions + "\n" + q))
	return hex.EncodeToString(h[:])
}

type solverCmd struct {
	name string
	args func(file string, secs int) []string
}

var solverCmds = []solverCmd{
	{"z3-new", func(f string, t int) []string { return []string{"z3-new", "-T:" + itoa(t), f} }},
	{"cvc5", func(f string, t int) []string { return []string{"cvc5", "--tlimit=" + itoa(t*1000), f} }},
	{"z3", func(f string, t int) []string { return []string{"z3", "-T:" + itoa(t), f} }},
}

func itoa(n int) string {
	b, _ := json.Marshal(n)
	return string(b)
}

// proveOnce races the solvers on one query; first "unsat" wins. A "sat" answer from any solver ends
// the race as well (the obligation is refuted). Cached by query text.
// Prove runs the solver race; a race that ends early without any verdict (a solver process that was
// killed or failed to start under memory/CPU pressure) is repeated, so that load never turns into a
// reported failure.
func (s *Solver) Prove(query string, wantModel bool) SolveResult {
	var r SolveResult
	timedOut := false
	for attempt := 0; attempt < 3; attempt++ {
		t0 := time.Now()
		r = s.proveOnce(query, wantModel, s.timeout)
		if r.Status != "unknown" {
			return r
		}
		if time.Since(t0) > s.timeout/2 {
			timedOut = true
			break
		}
	}
	// a query that ran into the time limit gets one more race with a three times longer limit: an
	// obligation that is merely slow on a loaded machine must not be reported as a violation
	// (GOVC_NO_EXTEND=1 switches this off, e.g. for the mutant corpus where most runs have a real failure)
	if timedOut && s.extend && os.Getenv("GOVC_NO_EXTEND") != "1" {
		r = s.proveOnce(query, wantModel, 3*s.timeout)
	}
	return r
}

func (s *Solver) proveOnce(query string, wantModel bool, timeout time.Duration) SolveResult {
	k := s.key(query)
	cf := filepath.Join(s.cacheDir, k[:2], k+".json")
	if data, err := os.ReadFile(cf); err == nil {
		var r SolveResult
		if json.Unmarshal(data, &r) == nil && (r.Status == "unsat" || (r.Status == "sat" && (!wantModel || r.Model != ""))) {
			r.Cached = true
			s.mu.Lock()
			s.hits++
			s.mu.Unlock()
			return r
		}
	}
	file := filepath.Join(s.tmpDir, k+".smt2")
	q := query + "(check-sat)\n"
	if wantModel {
		q += "(get-model)\n"
	}
	os.WriteFile(file, []byte(q), 0o644)
	defer os.Remove(file)
	t0 := time.Now()
	type ans struct {
		status, who, out string
	}
	ctx, cancel := context.WithTimeout(context.Background(), timeout+2*time.Second)
	defer cancel()
	ch := make(chan ans, len(solverCmds))
	secs := int(timeout.Seconds())
	if secs < 1 {
		secs = 1
	}
	for _, sc := range solverCmds {
		go func(sc solverCmd) {
			a := sc.args(file, secs)
			cmd := exec.CommandContext(ctx, a[0], a[1:]...)
			out, _ := cmd.Output()
			line := strings.TrimSpace(strings.SplitN(string(out), "\n", 2)[0])
			if strings.HasPrefix(line, "(error") && sc.name == "z3-new" {
				fmt.Fprintf(os.Stderr, "govc: SMT error (generator bug): %s\n", line)
			}
			ch <- ans{line, sc.name, string(out)}
		}(sc)
	}
	res := SolveResult{Status: "unknown"}
	for range solverCmds {
		a := <-ch
		if a.status == "unsat" || a.status == "sat" {
			res.Status, res.Solver = a.status, a.who
			if a.status == "sat" && wantModel {
				if i := strings.Index(a.out, "\n"); i >= 0 {
					res.Model = a.out[i+1:]
				}
			}
			break
		}
	}
	cancel()
	res.Secs = time.Since(t0).Seconds()
	s.mu.Lock()
	if res.Solver != "" {
		s.secs[res.Solver] += res.Secs
		s.count[res.Solver]++
	}
	s.mu.Unlock()
	if res.Status != "unknown" {
		os.MkdirAll(filepath.Dir(cf), 0o755)
		data, _ := json.Marshal(res)
		os.WriteFile(cf, data, 0o644)
	}
	return res
}
