package main

import (
	"go/types"
	"bufio"
	"encoding/json"
	"flag"
	"fmt"
	"os"
	"path/filepath"
	"regexp"
	"runtime/debug"
	"sort"
	"strconv"
	"strings"
	"sync"
	"time"

	"golang.org/x/tools/go/ssa"
)

type PropFunc struct {
	Key   string   `json:"key"`
	Kinds []string `json:"kinds,omitempty"` // restrict to obligation kinds (prefix match); empty = all
	Note  string   `json:"note,omitempty"`
	UntilCall string `json:"until_call,omitempty"` // only obligations positioned before (or at) the first call of this callee
}

type Bounded struct {
	Name  string `json:"name"`
	Cmd   string `json:"cmd"`
	Bound string `json:"bound"`
	Quick bool   `json:"quick,omitempty"` // cheap enough to run in the quick tier as well
}

type PropConfig struct {
	ID          string     `json:"id"`
	Packages    []string   `json:"packages"`
	Functions   []PropFunc `json:"functions"`
	Decided     string     `json:"decided"`
	Undecided   string     `json:"undecided"`
	TrustedBase []string   `json:"trusted_base"`
	Assumptions []string   `json:"assumptions"`
	DeadOK      []string   `json:"dead_ok,omitempty"` // cover names allowed to be unreachable: "fnkey|cover:..."
	Bounded     []Bounded  `json:"bounded,omitempty"`
}

type KnownFinding struct {
	Property   string `json:"property"`
	Function   string `json:"function"`
	Obligation string `json:"obligation"`
	Status     string `json:"status"`
	What       string `json:"what"`
	Commit     string `json:"commit,omitempty"`
}

type oblResult struct {
	Terms  map[string]string
	Fn     string
	O      Oblig
	Res    SolveResult
	Query  string
	Failed bool
}

type fnReport struct {
	Key         string         `json:"function"`
	Obligations int            `json:"obligations"`
	Discharged  int            `json:"discharged"`
	ByKind      map[string]int `json:"by_kind"`
	Covers      int            `json:"cover_checks"`
	Unsupported []string       `json:"out_of_subset,omitempty"`
	SMTBytes    int            `json:"smt_bytes"`
	Calls       []string       `json:"calls,omitempty"`
}

var verifDir = "/verif"
var repoDir = "/repo"

func main() {
	debug.SetGCPercent(400)
	if d := os.Getenv("VERIF_DIR"); d != "" {
		verifDir = d
	}
	if d := os.Getenv("REPO_DIR"); d != "" {
		repoDir = d
	}
	if len(os.Args) < 2 {
		fmt.Fprintln(os.Stderr, "usage: govc check <ID> [quick|thorough] | govc fn <pkg>[,<pkg>] <funcKey> [-dump dir] | govc selftest <ID>")
		os.Exit(2)
	}
	switch os.Args[1] {
	case "check":
		tier := "quick"
		if len(os.Args) > 3 {
			tier = os.Args[3]
		}
		os.Exit(runCheck(os.Args[2], tier))
	case "fn":
		os.Exit(runFn(os.Args[2:]))
	case "selftest":
		os.Exit(runSelftest(os.Args[2:]))
	case "replay":
		os.Exit(runReplayCmd(os.Args[2:]))
	case "gotest":
		// govc gotest <pkg dir relative to /repo> <test file under /verif> <TestName>: runs the test
		// inside the package of /repo's working tree through an overlay (nothing is written to /repo)
		if len(os.Args) < 5 {
			fmt.Fprintln(os.Stderr, "usage: govc gotest <pkgdir> <file> <Test>")
			os.Exit(2)
		}
		failed, out := runGoTest(os.Args[2], filepath.Join(verifDir, os.Args[3]), "", os.Args[4])
		fmt.Print(out)
		if failed || !strings.Contains(out, "ok") {
			os.Exit(1)
		}
		os.Exit(0)
	default:
		fmt.Fprintln(os.Stderr, "unknown command")
		os.Exit(2)
	}
}

func loadProp(id string) (*PropConfig, error) {
	data, err := os.ReadFile(filepath.Join(verifDir, "props", id+".json"))
	if err != nil {
		return nil, err
	}
	var pc PropConfig
	if err := json.Unmarshal(data, &pc); err != nil {
		return nil, err
	}
	return &pc, nil
}

func loadKnown() []KnownFinding {
	var out []KnownFinding
	f, err := os.Open(filepath.Join(verifDir, "known_findings.jsonl"))
	if err != nil {
		return nil
	}
	defer f.Close()
	sc := bufio.NewScanner(f)
	for sc.Scan() {
		line := strings.TrimSpace(sc.Text())
		if line == "" || strings.HasPrefix(line, "#") {
			continue
		}
		var k KnownFinding
		if json.Unmarshal([]byte(line), &k) == nil {
			out = append(out, k)
		}
	}
	return out
}

func kindAllowed(pf PropFunc, kind string) bool {
	if len(pf.Kinds) == 0 {
		return true
	}
	onlyExcl := true
	for _, k := range pf.Kinds {
		if strings.HasPrefix(k, "!") {
			if strings.HasPrefix(kind, k[1:]) {
				return false
			}
		} else {
			onlyExcl = false
		}
	}
	if onlyExcl {
		return true
	}
	for _, k := range pf.Kinds {
		if k == "safety" {
			switch kind {
			case "nil-deref", "index-bounds", "slice-bounds", "nil-map-write", "div-by-zero", "type-assert", "explicit-panic", "int-overflow", "make-size", "nil-iface-call", "nil-func-call":
				return true
			}
		}
		if strings.HasPrefix(kind, k) {
			return true
		}
	}
	return false
}

// verifyFunctions generates and discharges the obligations of the listed functions.
func verifyFunctions(P *Program, funcs []PropFunc, solver *Solver, coverSolver *Solver, dumpDir string) (results []oblResult, reports []fnReport, covers []oblResult, genErrs []string, assumptions map[string]bool) {
	assumptions = map[string]bool{}
	for _, b := range P.unknownContractKeys() {
		genErrs = append(genErrs, "contract names something that does not exist: "+b)
	}
	type job struct {
		fn    string
		o     Oblig
		query string
		terms map[string]string
	}
	var jobs []job
	for _, pf := range funcs {
		P.fucs[pf.Key] = true
	}
	for _, pf := range funcs {
		fn := P.FindFunc(pf.Key)
		if fn == nil {
			genErrs = append(genErrs, "contract matches no function: "+pf.Key)
			continue
		}
		if fn.Blocks == nil {
			genErrs = append(genErrs, "function has no body: "+pf.Key)
			continue
		}
		if ct := P.contractFor(fn); ct != nil && ct.ModNothing && !ct.Trusted {
			for _, b := range P.checkFrame(fn, 0) {
				genErrs = append(genErrs, pf.Key+": 'modifies nothing' is not justified: "+b)
			}
		}
		v, err := generate(P, fn)
		if err != nil {
			genErrs = append(genErrs, fmt.Sprintf("%s: generator failure: %v", pf.Key, err))
			continue
		}
		if ct := P.contractFor(fn); ct != nil && len(ct.Mods) > 0 && !ct.Trusted && !ct.ModNothing {
			bad, checkable := P.checkModFrame(fn, ct, func(mt *types.Map) (string, string) {
				dk, vk, _, _ := v.mapKeys(mt)
				return dk, vk
			}, func(t types.Type) []string {
				var ks []string
				v.leafKeys(t, func(k, s string) { ks = append(ks, k) })
				return ks
			})
			if checkable {
				for _, b := range bad {
					genErrs = append(genErrs, pf.Key+": frame is not justified: "+b)
				}
				assumptions["frame of "+shortKey(pf.Key)+" (fields/kinds clauses) checked syntactically against the body"] = true
			}
		}
		for _, e := range v.specErrors {
			genErrs = append(genErrs, pf.Key+": contract error: "+e)
		}
		rterms := v.replayVarTerms()
		pre := v.Preamble()
		for _, e := range v.specErrors[len(v.specErrors):] {
			genErrs = append(genErrs, pf.Key+": contract error: "+e)
		}
		body := v.body.String()
		rep := fnReport{Key: pf.Key, ByKind: map[string]int{}, Unsupported: v.unsupported, SMTBytes: len(pre) + len(body), Calls: sortedKeys(v.calls)}
		for a := range v.assumptions {
			assumptions[a] = true
		}
		for _, a := range v.usedAxioms {
			assumptions["axiom: "+a] = true
		}
		if dumpDir != "" {
			os.MkdirAll(dumpDir, 0o755)
			os.WriteFile(filepath.Join(dumpDir, sanitize(pf.Key)+".smt2"), []byte(pre+body), 0o644)
		}
		nEns := 0
		untilLine := 0
		if pf.UntilCall != "" {
			for _, b := range fn.Blocks {
				maxLine := 0
				for _, in := range b.Instrs {
					if l := fn.Prog.Fset.Position(in.Pos()).Line; l > maxLine {
						maxLine = l // argument expressions of a multi-line call come after its first line
					}
					if c, ok := in.(*ssa.Call); ok {
						sc := c.Call.StaticCallee()
						if (sc != nil && sc.Name() == pf.UntilCall) || (c.Call.IsInvoke() && c.Call.Method.Name() == pf.UntilCall) {
							if untilLine == 0 || maxLine < untilLine {
								untilLine = maxLine
							}
						}
					}
				}
			}
			if untilLine == 0 {
				genErrs = append(genErrs, pf.Key+": until_call callee "+pf.UntilCall+" is never called")
			}
		}
		for _, o := range v.obligs {
			q := pre + body[:o.Offset]
			if o.Cover {
				q += fmt.Sprintf("(assert %s)\n", o.Guard)
				jobs = append(jobs, job{pf.Key, o, q, nil})
				rep.Covers++
				continue
			}
			if o.Kind == "ensures" {
				nEns++
			}
			if !kindAllowed(pf, o.Kind) {
				continue
			}
			if untilLine > 0 && (o.Pos.Line > untilLine || o.Pos.Line == 0) {
				continue
			}
			q += fmt.Sprintf("(assert (and %s (not %s)))\n", o.Guard, o.Cond)
			jobs = append(jobs, job{pf.Key, o, q, rterms})
			rep.Obligations++
			rep.ByKind[o.Kind]++
		}
		if ct := P.contractFor(fn); ct != nil && len(ct.Ensures) > 0 && nEns < countChecked(ct.Ensures) {
			genErrs = append(genErrs, fmt.Sprintf("%s: %d ensures clauses but only %d ensures obligations were generated (no reachable return?)", pf.Key, len(ct.Ensures), nEns))
		}
		if rep.Obligations == 0 {
			genErrs = append(genErrs, pf.Key+": zero obligations generated")
		}
		reports = append(reports, rep)
	}
	res := make([]oblResult, len(jobs))
	var wg sync.WaitGroup
	sem := make(chan struct{}, 10)
	for i, j := range jobs {
		wg.Add(1)
		sem <- struct{}{}
		go func(i int, j job) {
			defer wg.Done()
			defer func() { <-sem }()
			s := solver
			if j.o.Cover {
				s = coverSolver
			}
			r := s.Prove(j.query, false)
			res[i] = oblResult{Fn: j.fn, O: j.o, Res: r, Query: j.query, Terms: j.terms}
		}(i, j)
	}
	wg.Wait()
	idx := map[string]int{}
	for i := range reports {
		idx[reports[i].Key] = i
	}
	for _, r := range res {
		if r.O.Cover {
			covers = append(covers, r)
			continue
		}
		if r.Res.Status == "unsat" {
			reports[idx[r.Fn]].Discharged++
		} else {
			r.Failed = true
		}
		results = append(results, r)
	}
	return
}

func generate(P *Program, fn *ssa.Function) (v *VC, err error) {
	defer func() {
		if r := recover(); r != nil {
			if se, ok := r.(specErr); ok {
				err = fmt.Errorf("spec: %s", se.msg)
				return
			}
			err = fmt.Errorf("panic: %v\n%s", r, debug.Stack())
		}
	}()
	v = NewVC(P, fn)
	v.Generate()
	return v, nil
}

func runFn(args []string) int {
	fs := flag.NewFlagSet("fn", flag.ExitOnError)
	dump := fs.String("dump", "", "directory for SMT dumps")
	timeout := fs.Int("t", 10, "timeout seconds")
	showAll := fs.Bool("v", false, "print discharged obligations too")
	fs.Parse(args)
	rest := fs.Args()
	if len(rest) < 2 {
		fmt.Fprintln(os.Stderr, "usage: govc fn [-dump dir] [-t s] <pkg,pkg> <funcKey>...")
		return 2
	}
	pkgs := strings.Split(rest[0], ",")
	for i := range pkgs {
		if !strings.Contains(pkgs[i], ".") {
			pkgs[i] = repoModule + "/" + pkgs[i]
		}
	}
	t0 := time.Now()
	P, err := LoadProgram(repoDir, verifDir, pkgs, nil)
	if err != nil {
		fmt.Fprintln(os.Stderr, err)
		return 2
	}
	fmt.Printf("loaded in %.1fs\n", time.Since(t0).Seconds())
	var funcs []PropFunc
	for _, k := range rest[1:] {
		key := funcKey(pkgs[0], k)
		funcs = append(funcs, PropFunc{Key: key})
	}
	solver := NewSolver(filepath.Join(verifDir, ".cache"), time.Duration(*timeout)*time.Second)
	defer solver.Close()
	cs := NewSolver(filepath.Join(verifDir, ".cache"), 3*time.Second)
	defer cs.Close()
	results, reports, covers, genErrs, assumptions := verifyFunctions(P, funcs, solver, cs, *dump)
	for _, e := range genErrs {
		fmt.Println("GENERATOR:", e)
	}
	failed := 0
	for _, r := range results {
		if r.Failed {
			failed++
		}
		if r.Failed || *showAll {
			fmt.Printf("  %-8s %-45s %6.2fs %-7s %s:%d  %s\n", r.Res.Status, r.O.Name, r.Res.Secs, r.Res.Solver, shortFile(r.O.Pos.Filename), r.O.Pos.Line, r.O.Src)
			if r.Failed && *dump != "" {
				os.WriteFile(filepath.Join(*dump, "FAILED_"+sanitize(r.O.Name)+".smt2"), []byte(r.Query+"(check-sat)\n(get-model)\n"), 0o644)
			}
		}
	}
	for _, c := range covers {
		if c.Res.Status == "unsat" {
			fmt.Printf("  VACUOUS  %s %s:%d\n", c.O.Name, shortFile(c.O.Pos.Filename), c.O.Pos.Line)
		}
	}
	for _, rep := range reports {
		fmt.Printf("%s: %d/%d discharged, %d covers, %d bytes, kinds=%v\n", rep.Key, rep.Discharged, rep.Obligations, rep.Covers, rep.SMTBytes, rep.ByKind)
		for _, u := range rep.Unsupported {
			fmt.Println("   out-of-subset:", u)
		}
	}
	for _, a := range sortedKeys(assumptions) {
		fmt.Println("   assumes:", a)
	}
	fmt.Printf("total %.1fs, failed=%d\n", time.Since(t0).Seconds(), failed)
	if failed > 0 || len(genErrs) > 0 {
		return 1
	}
	return 0
}

var modelLine = regexp.MustCompile(`\(define-fun ([^ ]+) \(\) ([^\n]+)`)

// findModel asks for a counterexample: full context first, then without quantified assumptions.
func findModel(query string, solver *Solver) (string, string) {
	r := solver.Prove(query, true)
	if r.Status == "sat" && r.Model != "" {
		return r.Model, "full context (" + r.Solver + ")"
	}
	// drop quantified assumptions: fewer hypotheses, still a candidate state
	var sb strings.Builder
	for _, line := range strings.Split(query, "\n") {
		if strings.HasPrefix(line, "(assert") && strings.Contains(line, "(forall ") {
			continue
		}
		sb.WriteString(line)
		sb.WriteString("\n")
	}
	r = solver.Prove(sb.String(), true)
	if r.Status == "sat" && r.Model != "" {
		return r.Model, "context without quantified assumptions (" + r.Solver + "); candidate only"
	}
	return "", ""
}

func writeEvidence(path string, ev map[string]any) {
	os.MkdirAll(filepath.Dir(path), 0o755)
	data, _ := json.MarshalIndent(ev, "", " ")
	os.WriteFile(path, data, 0o644)
}

func runCheck(id, tier string) int {
	t0 := time.Now()
	seed := 0
	if s := os.Getenv("VERIF_SEED"); s != "" {
		seed, _ = strconv.Atoi(s)
	}
	if t := os.Getenv("VERIF_TIER"); t != "" && len(os.Args) <= 3 {
		tier = t
	}
	if tier != "thorough" {
		tier = "quick"
	}
	evPath := filepath.Join(verifDir, "evidence", id+".json")
	pc, err := loadProp(id)
	if err != nil {
		fmt.Fprintln(os.Stderr, "cannot load property config:", err)
		return 2
	}
	timeout := 20 * time.Second
	if tier == "thorough" {
		timeout = 90 * time.Second
	}
	P, err := LoadProgram(repoDir, verifDir, pc.Packages, nil)
	if err != nil {
		// the tree does not build: nothing can be decided; this is not a property violation
		fmt.Fprintln(os.Stderr, "BROKEN: cannot load /repo packages:", err)
		return 2
	}
	loadSecs := time.Since(t0).Seconds()
	solver := NewSolver(filepath.Join(verifDir, ".cache"), timeout)
	solver.extend = true
	defer solver.Close()
	cs := NewSolver(filepath.Join(verifDir, ".cache"), 3*time.Second)
	defer cs.Close()
	results, reports, covers, genErrs, assumptions := verifyFunctions(P, pc.Functions, solver, cs, "")

	known := loadKnown()
	replayDir := filepath.Join(verifDir, "replays", id)
	os.MkdirAll(replayDir, 0o755)
	violations := 0
	knownHits := 0
	var violationLines []string
	total, discharged := 0, 0
	bySolver := map[string]int{}
	maxSecs, sumSecs := 0.0, 0.0
	var samples []map[string]any
	var slow []map[string]any
	deadOK := map[string]bool{}
	for _, d := range pc.DeadOK {
		deadOK[d] = true
	}
	attempts := map[string]int{}
	report := func(fn string, name string, text string, terms map[string]string, o *Oblig, query string) {
		// known finding?
		for _, k := range known {
			if k.Property == id && k.Status == "known" && k.Function == fn && strings.HasPrefix(name, k.Obligation) {
				fmt.Printf("KNOWN-FINDING: property=%s %s :: %s fails in %s\n", id, k.What, name, fn)
				knownHits++
				return
			}
		}
		violations++
		file := filepath.Join(replayDir, sanitize(fn+"__"+name)+".txt")
		var sb strings.Builder
		fmt.Fprintf(&sb, "property: %s\nfunction: %s\nfailed obligation: %s\n", id, fn, name)
		if o != nil {
			fmt.Fprintf(&sb, "position: %s:%d\nclause: %s\n", o.Pos.Filename, o.Pos.Line, o.Src)
		}
		fmt.Fprintf(&sb, "verifier output: %s\n", text)
		suffix := " no-failing-input-found"
		attempts[fn]++
		budget := 2
		if len(templatesFor(fn)) > 0 {
			budget = 4
		}
		if o != nil && query != "" && attempts[fn] > budget {
			fmt.Fprintf(&sb, "counterexample search skipped: %d earlier failed obligations of this function were already searched in this run\n", budget)
		}
		if o != nil && query != "" && attempts[fn] <= budget {
			if ok, rf := tryReplay(P, id, fn, *o, query, terms, solver, &sb); ok {
				suffix = ""
				fmt.Fprintf(&sb, "REPRODUCED on the real code; runnable replay: %s\n", rf)
			}
		}
		os.WriteFile(file, []byte(sb.String()), 0o644)
		violationLines = append(violationLines, fmt.Sprintf("VIOLATION property=%s replay=%s%s", id, file, suffix))
	}
	for _, e := range genErrs {
		report("(generator)", "generator: "+e, e, nil, nil, "")
	}
	for i := range results {
		r := &results[i]
		total++
		if !r.Failed {
			discharged++
			bySolver[r.Res.Solver]++
			if !r.Res.Cached {
				sumSecs += r.Res.Secs
				if r.Res.Secs > maxSecs {
					maxSecs = r.Res.Secs
				}
				slow = append(slow, map[string]any{"function": r.Fn, "obligation": r.O.Name, "solver": r.Res.Solver, "secs": r.Res.Secs})
			}
			if len(samples) < 6 && (r.O.Kind == "ensures" || strings.Contains(r.O.Kind, "inv") || len(samples) < 2) {
				samples = append(samples, map[string]any{"function": r.Fn, "obligation": r.O.Name, "clause": r.O.Src, "position": fmt.Sprintf("%s:%d", shortFile(r.O.Pos.Filename), r.O.Pos.Line), "smt_bytes": len(r.Query), "solver": r.Res.Solver, "secs": r.Res.Secs, "cached": r.Res.Cached})
			}
			continue
		}
		report(r.Fn, r.O.Name, fmt.Sprintf("solvers answered %q within %s%s (z3 5.1.0, cvc5 1.0.3, z3 4.8.12 raced)", r.Res.Status, timeout, extendNote()), r.Terms, &r.O, r.Query)
	}
	vacuous := 0
	for _, c := range covers {
		if c.Res.Status == "unsat" && !deadOK[c.Fn+"|"+c.O.Name] {
			vacuous++
			report(c.Fn, c.O.Name, "cover query is unsat: this program point is unreachable under the contract's assumptions, so obligations behind it hold vacuously", nil, &c.O, "")
		}
	}
	// bounded stand-ins (never counted as proved)
	var boundedOut []map[string]any
	if tier == "thorough" || os.Getenv("VERIF_BOUNDED") == "1" {
		for _, b := range pc.Bounded {
			boundedOut = append(boundedOut, runBounded(id, b, &violationLines, &violations))
		}
	} else {
		for _, b := range pc.Bounded {
			if b.Quick {
				boundedOut = append(boundedOut, runBounded(id, b, &violationLines, &violations))
			}
		}
	}
	if total == 0 && len(genErrs) == 0 {
		report("(generator)", "generator: no obligations at all", "zero obligations", nil, nil, "")
	}
	asm := append([]string{}, pc.Assumptions...)
	asm = append(asm, sortedKeys(assumptions)...)
	asm = append(asm, P.notes...)
	for _, rep := range reports {
		for _, u := range rep.Unsupported {
			asm = append(asm, "out-of-subset in "+rep.Key+": "+u)
		}
	}
	ev := map[string]any{
		"property_id": id, "tier": tier, "seed": seed, "level": "proof",
		"coverage": map[string]any{
			"obligations": total, "discharged": discharged,
			"checker_cmd":  fmt.Sprintf("./check %s %s  (govc: VCs from go/ssa of /repo working tree, tag verif; one SMT query per obligation; z3 5.1.0, cvc5 1.0.3, z3 4.8.12 raced, first unsat wins)", id, tier),
			"trusted_base": pc.TrustedBase,
			"functions_under_contract": reports,
			"discharged_by_backend":    bySolver,
			"solver_seconds_total":     sumSecs, "solver_seconds_max": maxSecs,
			"cache_hits":               solver.hits,
			"cover_checks":             len(covers), "vacuous_covers": vacuous,
			"known_findings_reported": knownHits,
			"decided":                 pc.Decided,
			"undecided_remainder":     pc.Undecided,
			"bounded_not_proved":      boundedOut,
			"samples":                 samples,
			"slowest_obligations":     slowest(slow, 5),
			"load_seconds":            loadSecs,
			"integer_semantics":       "mathematical Int with explicit wrap for unsigned ops and an int-overflow obligation per signed + - *",
			"extraction_drops":        "DebugRef/positions; callee bodies (contract, or inlined when loop-free and in-repo); go/select/channel ops abstracted as arbitrary calls (listed per function under out_of_subset); string contents uninterpreted; map iteration order arbitrary",
		},
		"assumptions": asm,
		"wall_s":      time.Since(t0).Seconds(),
		"violations":  violations,
	}
	writeEvidence(evPath, ev)
	for _, l := range violationLines {
		fmt.Println(l)
	}
	fmt.Printf("%s %s: %d/%d obligations discharged over %d functions, %d cover checks, %d known findings, %d violations, %.1fs\n", id, tier, discharged, total, len(reports), len(covers), knownHits, violations, time.Since(t0).Seconds())
	if violations > 0 {
		return 1
	}
	return 0
}

func sortReports(r []fnReport) {
	sort.Slice(r, func(i, j int) bool { return r[i].Key < r[j].Key })
}

func countChecked(cs []Clause) int {
	n := 0
	for _, c := range cs {
		if !c.Assumed {
			n++
		}
	}
	return n
}

// slowest: the n slowest (uncached) discharged obligations of a run, for the evidence file.
func slowest(all []map[string]any, n int) []map[string]any {
	sort.Slice(all, func(i, j int) bool { return all[i]["secs"].(float64) > all[j]["secs"].(float64) })
	if len(all) > n {
		all = all[:n]
	}
	return all
}

func extendNote() string {
	if os.Getenv("GOVC_NO_EXTEND") == "1" {
		return ""
	}
	return " and, where that limit was hit, within a second race with three times the limit"
}
