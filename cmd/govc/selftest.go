package main

import (
	"fmt"
	"os"
	"os/exec"
	"path/filepath"
	"sort"
	"strings"
	"time"
)

// A mutant is a deliberate property-breaking edit of /repo (applied in memory through the loader's
// overlay, never written to disk) together with the obligation it must break.
type mutant struct {
	name     string
	file     string
	expect   string
	funcs    []string
	search   string
	replace  string
	property string
}

func parseMutant(path string) (*mutant, error) {
	data, err := os.ReadFile(path)
	if err != nil {
		return nil, err
	}
	m := &mutant{name: filepath.Base(path)}
	parts := strings.Split(string(data), "\n---")
	for _, l := range strings.Split(parts[0], "\n") {
		if i := strings.Index(l, ":"); i > 0 {
			k, v := strings.TrimSpace(l[:i]), strings.TrimSpace(l[i+1:])
			switch k {
			case "file":
				m.file = v
			case "expect":
				m.expect = v
			case "function":
				m.funcs = append(m.funcs, v)
			}
		}
	}
	for _, p := range parts[1:] {
		if strings.HasPrefix(p, "search\n") {
			m.search = strings.TrimSuffix(p[len("search\n"):], "\n")
		} else if strings.HasPrefix(p, "replace\n") {
			m.replace = strings.TrimSuffix(p[len("replace\n"):], "\n")
		}
	}
	if m.file == "" || m.search == "" {
		return nil, fmt.Errorf("%s: needs file: and ---search", path)
	}
	return m, nil
}

// runSelftest: every mutant of the property must make at least one obligation fail (the expected
// one when named). Exit 0 iff all mutants are killed.
func runSelftest(args []string) int {
	if os.Getenv("GOVC_NO_EXTEND") == "" {
		// almost every mutant run has a genuinely failing obligation: do not wait three times longer for it
		os.Setenv("GOVC_NO_EXTEND", "1")
	}
	if len(args) < 1 {
		fmt.Fprintln(os.Stderr, "usage: govc selftest <ID> [mutant-name-substring]")
		return 2
	}
	id := args[0]
	pc, err := loadProp(id)
	if err != nil {
		fmt.Fprintln(os.Stderr, err)
		return 2
	}
	files, _ := filepath.Glob(filepath.Join(verifDir, "selftest", id, "*.mut"))
	sort.Strings(files)
	killed, total := 0, 0
	for _, f := range files {
		if len(args) > 1 && !strings.Contains(f, args[1]) {
			continue
		}
		m, err := parseMutant(f)
		if err != nil {
			fmt.Println("BAD MUTANT:", err)
			return 2
		}
		total++
		t0 := time.Now()
		target := filepath.Join(repoDir, m.file)
		src, err := os.ReadFile(target)
		if err != nil {
			fmt.Println("BAD MUTANT:", err)
			return 2
		}
		if strings.Count(string(src), m.search) != 1 {
			fmt.Printf("MUTANT %s: search text occurs %d times in %s (must be exactly 1)\n", m.name, strings.Count(string(src), m.search), m.file)
			continue
		}
		mutated := strings.Replace(string(src), m.search, m.replace, 1)
		P, err := LoadProgram(repoDir, verifDir, pc.Packages, map[string][]byte{target: []byte(mutated)})
		if err != nil {
			fmt.Printf("MUTANT %s: does not build: %v\n", m.name, err)
			continue
		}
		funcs := pc.Functions
		if len(m.funcs) > 0 {
			funcs = nil
			for _, pf := range pc.Functions {
				for _, want := range m.funcs {
					if strings.HasSuffix(pf.Key, want) {
						funcs = append(funcs, pf)
					}
				}
			}
		}
		solver := NewSolver(filepath.Join(verifDir, ".cache"), 10*time.Second)
		cs := NewSolver(filepath.Join(verifDir, ".cache"), 3*time.Second)
		results, _, covers, genErrs, _ := verifyFunctions(P, funcs, solver, cs, "")
		solver.Close()
		cs.Close()
		var failedNames []string
		for _, r := range results {
			if r.Failed {
				failedNames = append(failedNames, shortKey(r.Fn)+":"+r.O.Name)
			}
		}
		deadOK := map[string]bool{}
		for _, d := range pc.DeadOK {
			deadOK[d] = true
		}
		for _, c := range covers {
			if c.Res.Status == "unsat" && !deadOK[c.Fn+"|"+c.O.Name] {
				failedNames = append(failedNames, shortKey(c.Fn)+":"+c.O.Name)
			}
		}
		for _, e := range genErrs {
			failedNames = append(failedNames, "generator:"+e)
		}
		if len(failedNames) == 0 && len(pc.Bounded) > 0 {
			// the deductive part saw nothing: run the bounded stand-ins on the mutant as well
			tmp, _ := os.CreateTemp("", "govc-mutant-*.go")
			tmp.WriteString(mutated)
			tmp.Close()
			for _, b := range pc.Bounded {
				cmd := exec.Command("sh", "-c", b.Cmd)
				cmd.Dir = verifDir
				cmd.Env = append(os.Environ(), "GOVC_EXTRA_OVERLAY="+target+"="+tmp.Name())
				if out, err := cmd.CombinedOutput(); err != nil {
					line := ""
					for _, l := range strings.Split(string(out), "\n") {
						if strings.Contains(l, "_test.go:") {
							line = strings.TrimSpace(l)
							break
						}
					}
					failedNames = append(failedNames, "bounded:"+b.Name+" ("+line+")")
				}
			}
			os.Remove(tmp.Name())
		}
		ok := len(failedNames) > 0
		if ok && m.expect != "" && m.expect != "any" {
			ok = false
			for _, n := range failedNames {
				if strings.Contains(n, m.expect) {
					ok = true
				}
			}
		}
		if ok {
			killed++
			fmt.Printf("killed   %-40s %5.1fs  %s\n", m.name, time.Since(t0).Seconds(), strings.Join(firstN(failedNames, 4), ", "))
		} else {
			fmt.Printf("SURVIVED %-40s %5.1fs  expected %q, failed: %v\n", m.name, time.Since(t0).Seconds(), m.expect, firstN(failedNames, 6))
		}
	}
	fmt.Printf("selftest %s: %d/%d mutants killed\n", id, killed, total)
	if killed != total {
		return 1
	}
	return 0
}

func firstN(s []string, n int) []string {
	if len(s) > n {
		return append(append([]string{}, s[:n]...), fmt.Sprintf("... +%d", len(s)-n))
	}
	return s
}

func shortKey(k string) string {
	if i := strings.LastIndex(k, "/"); i >= 0 {
		return k[i+1:]
	}
	return k
}
