package main

import (
	"fmt"
	"os"
	"os/exec"
	"strings"
	"time"
)

// tryReplay searches a model of the failed obligation and, where a replay template exists for the
// function, runs it against the real code. It returns the replay file when the failure was reproduced.
func tryReplay(P *Program, id, fn string, o Oblig, query string, terms map[string]string, solver *Solver, sb *strings.Builder) (bool, string) {
	ms := NewSolver(solver.cacheDir, 10*time.Second)
	defer ms.Close()
	m, how := findModel(query, ms)
	if m == "" {
		fmt.Fprintf(sb, "counterexample: none returned by the solvers (quantified context: unknown/timeout)\n")
	} else {
		fmt.Fprintf(sb, "counterexample candidate from %s:\n", how)
		for _, l := range modelInputs(m) {
			fmt.Fprintf(sb, "  %s\n", l)
		}
	}
	return replayOnRealCode(P, id, fn, o, query, terms, sb)
}

// modelInputs extracts the values of parameters and call results from a z3 model.
func modelInputs(model string) []string {
	var out []string
	lines := strings.Split(model, "\n")
	for i := 0; i < len(lines); i++ {
		l := strings.TrimSpace(lines[i])
		if !strings.HasPrefix(l, "(define-fun v_") && !strings.HasPrefix(l, "(define-fun r!") {
			continue
		}
		if !strings.Contains(l, " () ") {
			continue
		}
		val := ""
		if i+1 < len(lines) {
			val = strings.TrimSpace(lines[i+1])
		}
		name := strings.Fields(l)[1]
		if len(val) > 200 {
			val = val[:200] + "..."
		}
		out = append(out, name+" = "+strings.TrimSuffix(val, ")"))
		if len(out) > 60 {
			break
		}
	}
	return out
}

func runBounded(id string, b Bounded, lines *[]string, violations *int) map[string]any {
	t0 := time.Now()
	cmd := exec.Command("sh", "-c", b.Cmd)
	cmd.Dir = verifDir
	out, err := cmd.CombinedOutput()
	res := map[string]any{"name": b.Name, "bound": b.Bound, "cmd": b.Cmd, "label": "bounded - not proved", "wall_s": time.Since(t0).Seconds()}
	tail := string(out)
	if len(tail) > 600 {
		tail = tail[len(tail)-600:]
	}
	res["output_tail"] = tail
	if err != nil {
		*violations++
		file := fmt.Sprintf("%s/replays/%s/bounded_%s.txt", verifDir, id, sanitize(b.Name))
		os.WriteFile(file, out, 0o644)
		*lines = append(*lines, fmt.Sprintf("VIOLATION property=%s replay=%s", id, file))
		res["result"] = "failed"
	} else {
		res["result"] = "passed"
	}
	return res
}

func runReplayCmd(args []string) int {
	if len(args) < 1 {
		return 2
	}
	data, err := os.ReadFile(args[0])
	if err != nil {
		fmt.Println(err)
		return 2
	}
	fmt.Print(string(data))
	return 0
}
