package main

import (
	"fmt"
	"strings"
	"unicode"
)

// ---- spec expression AST ----

type SExpr interface{}

type (
	SIdent  struct{ Name string }
	SInt    struct{ V string }
	SBool   struct{ V bool }
	SNil    struct{}
	SStr    struct{ V string }
	SUnary  struct{ Op string; X SExpr }
	SBinary struct{ Op string; L, R SExpr }
	SField  struct{ X SExpr; Name string }
	SIndex  struct{ X, I SExpr }
	SCall   struct{ Fn string; Args []SExpr }
	SMethod struct{ X SExpr; Name string; Args []SExpr }
	SQuant  struct {
		Forall bool
		Vars   []string
		Types  []string
		Body   SExpr
	}
)

type tok struct {
	kind string // id, int, str, op, eof
	s    string
}

func lex(src string) ([]tok, error) {
	var toks []tok
	i := 0
	for i < len(src) {
		c := src[i]
		switch {
		case c == ' ' || c == '\t' || c == '\n':
			i++
		case unicode.IsLetter(rune(c)) || c == '_' || c == '#':
			j := i + 1
			for j < len(src) && (unicode.IsLetter(rune(src[j])) || unicode.IsDigit(rune(src[j])) || src[j] == '_' || src[j] == '$' || src[j] == '#') {
				j++
			}
			toks = append(toks, tok{"id", src[i:j]})
			i = j
		case unicode.IsDigit(rune(c)):
			j := i + 1
			for j < len(src) && (unicode.IsDigit(rune(src[j])) || src[j] == 'x' || (src[j] >= 'a' && src[j] <= 'f') || (src[j] >= 'A' && src[j] <= 'F')) {
				j++
			}
			toks = append(toks, tok{"int", src[i:j]})
			i = j
		case c == '"':
			j := i + 1
			for j < len(src) && src[j] != '"' {
				j++
			}
			toks = append(toks, tok{"str", src[i+1 : j]})
			i = j + 1
		default:
			ops := []string{"<==>", "==>", "::", "&&", "||", "==", "!=", "<=", ">=", "<", ">", "+", "-", "*", "/", "%", "!", "(", ")", "[", "]", ".", ","}
			ok := false
			for _, op := range ops {
				if strings.HasPrefix(src[i:], op) {
					toks = append(toks, tok{"op", op})
					i += len(op)
					ok = true
					break
				}
			}
			if !ok {
				return nil, fmt.Errorf("lex: bad char %q at %d in %q", c, i, src)
			}
		}
	}
	toks = append(toks, tok{"eof", ""})
	return toks, nil
}

type parser struct {
	toks []tok
	pos  int
}

func (p *parser) peek() tok { return p.toks[p.pos] }
func (p *parser) next() tok { t := p.toks[p.pos]; p.pos++; return t }
func (p *parser) accept(s string) bool {
	if p.peek().kind == "op" && p.peek().s == s {
		p.pos++
		return true
	}
	return false
}
func (p *parser) expect(s string) {
	if !p.accept(s) {
		panic(fmt.Sprintf("spec parse: expected %q got %q", s, p.peek().s))
	}
}

var binPrec = map[string]int{
	"<==>": 1, "==>": 2, "||": 3, "&&": 4,
	"==": 5, "!=": 5, "<": 5, "<=": 5, ">": 5, ">=": 5, "in": 5,
	"+": 6, "-": 6, "*": 7, "/": 7, "%": 7,
}

func ParseSpec(src string) (e SExpr, err error) {
	defer func() {
		if r := recover(); r != nil {
			err = fmt.Errorf("%v (in %q)", r, src)
		}
	}()
	toks, err := lex(src)
	if err != nil {
		return nil, err
	}
	p := &parser{toks: toks}
	e = p.expr(0)
	if p.peek().kind != "eof" {
		panic("trailing tokens: " + p.peek().s)
	}
	return e, nil
}

func (p *parser) expr(minPrec int) SExpr {
	lhs := p.unary()
	for {
		t := p.peek()
		op := t.s
		if t.kind == "id" && t.s == "in" {
			op = "in"
		} else if t.kind != "op" {
			break
		}
		prec, ok := binPrec[op]
		if !ok || prec < minPrec {
			break
		}
		p.next()
		var rhs SExpr
		if op == "==>" { // right assoc
			rhs = p.expr(prec)
		} else {
			rhs = p.expr(prec + 1)
		}
		lhs = SBinary{op, lhs, rhs}
	}
	return lhs
}

func (p *parser) unary() SExpr {
	if p.accept("!") {
		return SUnary{"!", p.unary()}
	}
	if p.accept("-") {
		return SUnary{"-", p.unary()}
	}
	return p.postfix(p.primary())
}

func (p *parser) postfix(e SExpr) SExpr {
	for {
		switch {
		case p.accept("."):
			name := p.next().s
			if p.accept("(") {
				mc := SMethod{X: e, Name: name}
				if !p.accept(")") {
					for {
						mc.Args = append(mc.Args, p.expr(0))
						if p.accept(")") {
							break
						}
						p.expect(",")
					}
				}
				e = mc
			} else {
				e = SField{e, name}
			}
		case p.accept("["):
			i := p.expr(0)
			p.expect("]")
			e = SIndex{e, i}
		default:
			return e
		}
	}
}

func (p *parser) primary() SExpr {
	t := p.next()
	switch t.kind {
	case "int":
		return SInt{t.s}
	case "str":
		return SStr{t.s}
	case "id":
		switch t.s {
		case "true":
			return SBool{true}
		case "false":
			return SBool{false}
		case "nil":
			return SNil{}
		case "forall", "exists":
			q := SQuant{Forall: t.s == "forall"}
			for {
				q.Vars = append(q.Vars, p.next().s)
				ty := ""
				if p.accept("*") {
					ty = "*"
				}
				ty += p.next().s
				if p.peek().kind == "op" && p.peek().s == "." {
					p.next()
					ty += "." + p.next().s
				}
				q.Types = append(q.Types, ty)
				if !p.accept(",") {
					break
				}
			}
			p.expect("::")
			q.Body = p.expr(0)
			return q
		}
		if p.accept("(") {
			c := SCall{Fn: t.s}
			if !p.accept(")") {
				for {
					c.Args = append(c.Args, p.expr(0))
					if p.accept(")") {
						break
					}
					p.expect(",")
				}
			}
			return c
		}
		return SIdent{t.s}
	case "op":
		if t.s == "(" {
			e := p.expr(0)
			p.expect(")")
			return e
		}
	}
	panic("unexpected token " + t.s)
}
