package main

import (
	"fmt"
	"go/token"
	"go/types"
	"sort"
	"strings"

	"golang.org/x/tools/go/ssa"
)

func fnKey(f *ssa.Function) string {
	if o := f.Origin(); o != nil {
		f = o
	}
	return f.String()
}

func ifaceMethodKey(c *ssa.CallCommon) string {
	return "iface:" + types.TypeString(c.Value.Type(), pkgQual) + "." + c.Method.Name()
}

func (v *VC) bindCallResult(i *ssa.Call, res []string) {
	sig := i.Call.Signature()
	n := sig.Results().Len()
	name := "v_" + v.pfx + sanitize(i.Name())
	v.names[i] = name
	switch {
	case n == 0:
	case n == 1:
		v.emit("(define-fun %s () %s %s)", name, v.sortOf(sig.Results().At(0).Type()), res[0])
	default:
		for k := 0; k < n; k++ {
			v.emit("(define-fun %s_%d () %s %s)", name, k, v.sortOf(sig.Results().At(k).Type()), res[k])
		}
	}
}

func (v *VC) freshResults(sig *types.Signature, g string) []string {
	clk := v.clock(v.curHeap)
	var out []string
	for k := 0; k < sig.Results().Len(); k++ {
		nm := v.freshName("r")
		t := sig.Results().At(k).Type()
		v.emit("(declare-const %s %s)", nm, v.sortOf(t))
		v.assume("true", v.rangeFact(t, nm))
		v.assume("true", v.extFact(t, nm))
		v.assume("true", v.validFactC(t, nm, clk))
		out = append(out, nm)
	}
	return out
}

// assumeResultFacts: machine-type facts of values returned by a function abstracted as a UF.
func (v *VC) assumeResultFacts(sig *types.Signature, res []string, g string) {
	clk := v.clock(v.curHeap)
	for k := 0; k < sig.Results().Len() && k < len(res); k++ {
		t := sig.Results().At(k).Type()
		v.assume(g, v.rangeFact(t, res[k]))
		v.assume(g, v.extFact(t, res[k]))
		v.assume(g, v.validFactC(t, res[k], clk))
	}
}

func (v *VC) uf(name string, argSorts []string, resSort string) string {
	if _, ok := v.ufs[name]; !ok {
		v.ufs[name] = fmt.Sprintf("(declare-fun %s (%s) %s)", name, strings.Join(argSorts, " "), resSort)
		v.ufOrder = append(v.ufOrder, name)
	}
	return name
}

// ufRangeAxiom: results of an abstracted function have the range of their machine type (for
// slices: 0 <= len <= cap), whatever the arguments.
func (v *VC) ufRangeAxiom(base string, sig *types.Signature, recvSort string) {
	if sig.Results().Len() != 1 || v.features["rng:"+base] {
		return
	}
	v.features["rng:"+base] = true
	var decl, args []string
	n := 0
	if recvSort != "" {
		decl = append(decl, fmt.Sprintf("(x%d %s)", n, recvSort))
		args = append(args, fmt.Sprintf("x%d", n))
		n++
	}
	for k := 0; k < sig.Params().Len(); k++ {
		decl = append(decl, fmt.Sprintf("(x%d %s)", n, v.sortOf(sig.Params().At(k).Type())))
		args = append(args, fmt.Sprintf("x%d", n))
		n++
	}
	if len(args) == 0 {
		return
	}
	app := fmt.Sprintf("(%s %s)", base, strings.Join(args, " "))
	f := v.rangeFact(sig.Results().At(0).Type(), app)
	if f == "true" {
		return
	}
	v.extraAxioms = append(v.extraAxioms, fmt.Sprintf("(assert (forall (%s) (! %s :pattern (%s))))", strings.Join(decl, " "), f, app))
}

func (v *VC) useUF(d *UFDecl) { v.uf(d.Name, d.Args, d.Res) }

func (v *VC) ufApp(base string, sig *types.Signature, recvSort string, args []string) []string {
	var sorts []string
	if recvSort != "" {
		sorts = append(sorts, recvSort)
	}
	for k := 0; k < sig.Params().Len(); k++ {
		sorts = append(sorts, v.sortOf(sig.Params().At(k).Type()))
	}
	var out []string
	for k := 0; k < sig.Results().Len(); k++ {
		nm := base
		if sig.Results().Len() > 1 {
			nm = fmt.Sprintf("%s_%d", base, k)
		}
		v.uf(nm, sorts, v.sortOf(sig.Results().At(k).Type()))
		if len(args) == 0 {
			out = append(out, nm)
		} else {
			out = append(out, fmt.Sprintf("(%s %s)", nm, strings.Join(args, " ")))
		}
	}
	return out
}

func (v *VC) genCall(i *ssa.Call, g string, heap *Heap) {
	if bi, ok := i.Call.Value.(*ssa.Builtin); ok {
		v.genBuiltin(i, bi, g, heap)
		return
	}
	res := v.doCall(&i.Call, g, heap, i.Pos())
	v.bindCallResult(i, res)
	// a call result that is a closure created by an inlined callee is not tracked
}

func (v *VC) genBuiltin(i *ssa.Call, bi *ssa.Builtin, g string, heap *Heap) {
	args := i.Call.Args
	switch bi.Name() {
	case "len":
		a := v.val(args[0])
		switch u := args[0].Type().Underlying().(type) {
		case *types.Slice:
			v.define(i, "(s-len "+a+")")
		case *types.Map:
			dk, _, ks, _ := v.mapKeys(u)
			hd := v.heapGet(heap, dk, fmt.Sprintf("RAW:(Array Ptr (Array %s Bool))", ks))
			v.define(i, fmt.Sprintf("(ite (= %s nilp) 0 %s)", a, v.mapLen(u, fmt.Sprintf("(select %s %s)", hd, a))))
		case *types.Array:
			v.define(i, fmt.Sprint(u.Len()))
		case *types.Pointer:
			v.define(i, fmt.Sprint(u.Elem().Underlying().(*types.Array).Len()))
		case *types.Chan:
			v.declare(i)
		default:
			v.define(i, "(strlen "+a+")")
		}
	case "cap":
		a := v.val(args[0])
		switch u := args[0].Type().Underlying().(type) {
		case *types.Slice:
			v.define(i, "(s-cap "+a+")")
		case *types.Array:
			v.define(i, fmt.Sprint(u.Len()))
		default:
			v.declare(i)
		}
	case "append":
		v.genAppend(i, g, heap)
	case "copy":
		v.genCopy(i, g, heap)
	case "delete":
		mt := args[0].Type().Underlying().(*types.Map)
		dk, _, ks, _ := v.mapKeys(mt)
		m, k := v.val(args[0]), v.val(args[1])
		hd := v.heapGet(heap, dk, fmt.Sprintf("RAW:(Array Ptr (Array %s Bool))", ks))
		v.heapSet(heap, dk, fmt.Sprintf("(ite (= %s nilp) %s (store %s %s (store (select %s %s) %s false)))", m, hd, hd, m, hd, m, k))
	case "clear":
		if mt, ok := args[0].Type().Underlying().(*types.Map); ok {
			dk, _, ks, _ := v.mapKeys(mt)
			m := v.val(args[0])
			hd := v.heapGet(heap, dk, fmt.Sprintf("RAW:(Array Ptr (Array %s Bool))", ks))
			v.heapSet(heap, dk, fmt.Sprintf("(ite (= %s nilp) %s (store %s %s ((as const (Array %s Bool)) false)))", m, hd, hd, m, ks))
		} else {
			v.unsupp("clear of slice")
		}
	case "min", "max":
		op := "<="
		if bi.Name() == "max" {
			op = ">="
		}
		t := v.val(args[0])
		for _, a := range args[1:] {
			t = fmt.Sprintf("(ite (%s %s %s) %s %s)", op, t, v.val(a), t, v.val(a))
		}
		v.define(i, t)
	case "print", "println":
	case "ssa:wrapnilchk":
		v.safety("nil-deref", g, fmt.Sprintf("(not (= %s nilp))", v.val(args[0])), i.Pos())
		v.define(i, v.val(args[0]))
	case "recover":
		v.unsupp("recover()")
		v.declare(i)
	case "close":
		v.note("close(channel) has no effect on the modelled memory")
	default:
		v.unsupp("builtin %s", bi.Name())
		if i.Type() != nil {
			if tup, ok := i.Type().(*types.Tuple); !ok || tup.Len() > 0 {
				v.declare(i)
			}
		}
	}
}

// append(a, b...): the result has len(a)+len(b) elements; it reuses a's backing array when the
// capacity suffices (exactly as the runtime does) and a fresh array otherwise.
func (v *VC) genAppend(i *ssa.Call, g string, heap *Heap) {
	a, b := v.val(i.Call.Args[0]), v.val(i.Call.Args[1])
	et := i.Type().Underlying().(*types.Slice).Elem()
	res := v.declare(i)
	freshBase := fmt.Sprintf("(obj %s)", v.newAlloc(false, heap))
	blen := "(s-len " + b + ")"
	if _, isStr := i.Call.Args[1].Type().Underlying().(*types.Basic); isStr {
		blen = "(strlen " + b + ")"
	}
	newLen := fmt.Sprintf("(+ (s-len %s) %s)", a, blen)
	inPlace := fmt.Sprintf("(<= %s (s-cap %s))", newLen, a)
	v.assume(g, fmt.Sprintf("(= (s-len %s) %s)", res, newLen))
	v.assume(g, fmt.Sprintf("(ite %s (and (= (s-base %s) (s-base %s)) (= (s-off %s) (s-off %s)) (= (s-cap %s) (s-cap %s))) (and (= (s-base %s) %s) (= (s-off %s) 0) (<= %s (s-cap %s))))",
		inPlace, res, a, res, a, res, a, res, freshBase, res, newLen, res))
	// nil stays nil only if nothing was appended
	v.assume(g, fmt.Sprintf("(=> (= %s 0) (= %s %s))", blen, res, a))
	if id := v.pointeeID(et); id > 0 {
		v.features["tyof"] = true
		v.assume(g, fmt.Sprintf("(forall ((k Int)) (! (= (tyof (selem %s k)) %d) :pattern ((selem %s k))))", res, id, res))
	}
	_, bIsStr := i.Call.Args[1].Type().Underlying().(*types.Basic)
	if bIsStr {
		v.useStrAt()
	}
	v.leafHeaps(et, func(key, srt string, paths []func(string) string) {
		old := v.heapGet(heap, key, srt)
		v.heapVer++
		nm := fmt.Sprintf("H%d_%s", v.heapVer, sanitize(key))
		v.declHeap(nm, key)
		for _, path := range paths {
			el := func(s, k string) string { return path(fmt.Sprintf("(selem %s %s)", s, k)) }
			// old elements keep their value in the result
			v.assume(g, fmt.Sprintf("(forall ((k Int)) (! (=> (and (<= 0 k) (< k (s-len %s))) (= (select %s %s) (select %s %s))) :pattern ((select %s %s))))", a, nm, el(res, "k"), old, el(a, "k"), nm, el(res, "k")))
			// appended elements
			if bIsStr {
				// append([]byte, string...): the appended bytes are the bytes of the string
				v.assume(g, fmt.Sprintf("(forall ((k Int)) (! (=> (and (<= (s-len %s) k) (< k %s)) (= (select %s %s) (str.at %s (- k (s-len %s))))) :pattern ((select %s %s))))", a, newLen, nm, el(res, "k"), b, a, nm, el(res, "k")))
				continue
			}
			v.assume(g, fmt.Sprintf("(forall ((k Int)) (! (=> (and (<= (s-len %s) k) (< k %s)) (= (select %s %s) (select %s %s))) :pattern ((select %s %s))))", a, newLen, nm, el(res, "k"), old, el(b, fmt.Sprintf("(- k (s-len %s))", a)), nm, el(res, "k")))
			// explicit instances for append(s, x1..xn) (variadic literal of known small length)
			for j := 0; j < varargLen(i.Call.Args[1]); j++ {
				v.assume(g, fmt.Sprintf("(= (select %s %s) (select %s %s))", nm, el(res, fmt.Sprintf("(+ (s-len %s) %d)", a, j)), old, path(fmt.Sprintf("(elm (s-base %s) %d)", b, j))))
			}
		}
		// frame: only the leaf cells of the appended elements change
		var shapes []string
		for _, path := range paths {
			shapes = append(shapes, fmt.Sprintf("(= p %s)", path(fmt.Sprintf("(elm (s-base %s) (eidx p))", res))))
		}
		v.assume(g, fmt.Sprintf("(forall ((p Ptr)) (! (=> (not (and (= (root p) (root (s-base %s))) (in-window p %s (s-len %s) %s) (or %s false))) (= (select %s p) (select %s p))) :pattern ((select %s p))))", res, res, a, newLen, strings.Join(shapes, " "), nm, old, nm))
		heap.m[key] = nm
	})
	v.features["in-window"] = true
}

// varargLen: length of the backing array when x is arr[:] of a fresh [n]T (at most 4), else 0.
func varargLen(x ssa.Value) int {
	sl, ok := x.(*ssa.Slice)
	if !ok || sl.Low != nil || sl.High != nil {
		return 0
	}
	al, ok := sl.X.(*ssa.Alloc)
	if !ok {
		return 0
	}
	arr, ok := al.Type().Underlying().(*types.Pointer).Elem().Underlying().(*types.Array)
	if !ok || arr.Len() > 4 {
		return 0
	}
	return int(arr.Len())
}

// leafHeaps enumerates the heap arrays that hold parts of an element of type et; for each array
// all address paths from the element's address to a leaf cell stored in that array.
func (v *VC) leafHeaps(et types.Type, f func(key, srt string, paths []func(string) string)) {
	type ent struct {
		key, srt string
		paths    []func(string) string
	}
	var order []string
	m := map[string]*ent{}
	var rec func(t types.Type, path func(string) string)
	rec = func(t types.Type, path func(string) string) {
		if st, ok := t.Underlying().(*types.Struct); ok {
			for k := 0; k < st.NumFields(); k++ {
				k := k
				rec(st.Field(k).Type(), func(p string) string { return fmt.Sprintf("(fld %s %d)", path(p), k) })
			}
			return
		}
		key, srt := v.heapKey(t)
		if m[key] == nil {
			m[key] = &ent{key: key, srt: srt}
			order = append(order, key)
		}
		m[key].paths = append(m[key].paths, path)
	}
	rec(et, func(p string) string { return p })
	for _, k := range order {
		f(m[k].key, m[k].srt, m[k].paths)
	}
}

func (v *VC) genCopy(i *ssa.Call, g string, heap *Heap) {
	dst, src := v.val(i.Call.Args[0]), v.val(i.Call.Args[1])
	n := v.declare(i)
	sl, ok := i.Call.Args[0].Type().Underlying().(*types.Slice)
	srcLen := "(s-len " + src + ")"
	_, srcIsStr := i.Call.Args[1].Type().Underlying().(*types.Basic)
	if srcIsStr {
		srcLen = "(strlen " + src + ")"
	}
	v.assume(g, fmt.Sprintf("(= %s (ite (<= (s-len %s) %s) (s-len %s) %s))", n, dst, srcLen, dst, srcLen))
	if !ok {
		return
	}
	v.leafHeaps(sl.Elem(), func(key, srt string, paths []func(string) string) {
		old := v.heapGet(heap, key, srt)
		v.heapVer++
		nm := fmt.Sprintf("H%d_%s", v.heapVer, sanitize(key))
		v.declHeap(nm, key)
		for _, path := range paths {
			el := func(s, k string) string { return path(fmt.Sprintf("(selem %s %s)", s, k)) }
			if !srcIsStr {
				v.assume(g, fmt.Sprintf("(forall ((k Int)) (! (=> (and (<= 0 k) (< k %s)) (= (select %s %s) (select %s %s))) :pattern ((select %s %s))))", n, nm, el(dst, "k"), old, el(src, "k"), nm, el(dst, "k")))
			}
		}
		var shapes []string
		for _, path := range paths {
			shapes = append(shapes, fmt.Sprintf("(= p %s)", path(fmt.Sprintf("(elm (s-base %s) (eidx p))", dst))))
		}
		v.assume(g, fmt.Sprintf("(forall ((p Ptr)) (! (=> (not (and (= (root p) (root (s-base %s))) (in-window p %s 0 %s) (or %s false))) (= (select %s p) (select %s p))) :pattern ((select %s p))))", dst, dst, n, strings.Join(shapes, " "), nm, old, nm))
		heap.m[key] = nm
	})
	v.features["in-window"] = true
}

func (v *VC) mapLen(mt *types.Map, dom string) string {
	ks := v.sortOf(mt.Key())
	nm := "maplen_" + sanitize(ks)
	if _, ok := v.ufs[nm]; !ok {
		v.uf(nm, []string{fmt.Sprintf("(Array %s Bool)", ks)}, "Int")
		v.extraAxioms = append(v.extraAxioms,
			fmt.Sprintf("(assert (forall ((d (Array %s Bool))) (! (>= (%s d) 0) :pattern ((%s d)))))", ks, nm, nm),
			fmt.Sprintf("(assert (= (%s ((as const (Array %s Bool)) false)) 0))", nm, ks),
			fmt.Sprintf("(assert (forall ((d (Array %s Bool)) (k %s)) (! (=> (select d k) (> (%s d) 0)) :pattern ((%s d) (select d k)))))", ks, ks, nm, nm),
			fmt.Sprintf("(assert (forall ((d (Array %s Bool)) (k %s)) (! (= (%s (store d k true)) (ite (select d k) (%s d) (+ (%s d) 1))) :pattern ((%s (store d k true))))))", ks, ks, nm, nm, nm, nm),
			fmt.Sprintf("(assert (forall ((d (Array %s Bool)) (k %s)) (! (= (%s (store d k false)) (ite (select d k) (- (%s d) 1) (%s d))) :pattern ((%s (store d k false))))))", ks, ks, nm, nm, nm, nm))
	}
	return fmt.Sprintf("(%s %s)", nm, dom)
}

func (v *VC) doCall(c *ssa.CallCommon, g string, heap *Heap, pos token.Pos) []string {
	sig := c.Signature()
	var args []string
	for _, a := range c.Args {
		args = append(args, v.val(a))
	}
	if bi, ok := c.Value.(*ssa.Builtin); ok {
		// deferred builtin (e.g. defer close(ch), defer delete(m,k))
		switch bi.Name() {
		case "delete":
			mt := c.Args[0].Type().Underlying().(*types.Map)
			dk, _, ks, _ := v.mapKeys(mt)
			hd := v.heapGet(heap, dk, fmt.Sprintf("RAW:(Array Ptr (Array %s Bool))", ks))
			v.heapSet(heap, dk, fmt.Sprintf("(ite (= %s nilp) %s (store %s %s (store (select %s %s) %s false)))", args[0], hd, hd, args[0], hd, args[0], args[1]))
		default:
			v.unsupp("deferred builtin %s", bi.Name())
		}
		return nil
	}
	if c.IsInvoke() {
		key := ifaceMethodKey(c)
		recv := v.val(c.Value)
		v.safety("nil-iface-call", g, fmt.Sprintf("(not (= %s inil))", recv), pos)
		v.calls[key] = true
		if ct, ok := v.P.db.Contracts[key]; ok {
			ct.Used = true
			if ct.Pure {
				v.note("pure interface method (result is a function of receiver and arguments): %s", key)
				res := v.ufApp("uf_"+sanitize(key), sig, "Iface", append([]string{recv}, args...))
				v.assumeResultFacts(sig, res, g)
				v.assumeEnsuresSig(c.Method.Name(), sig, ct, append([]string{recv}, args...), c.Value.Type(), res, g, heap)
				return res
			}
			v.note("assumed contract of interface method %s", key)
			return v.modularSig(c.Method.Name(), sig, ct, append([]string{recv}, args...), c.Value.Type(), g, heap, pos)
		}
		v.note("uncontracted interface call treated as arbitrary (may modify any non-private memory, any result): %s", key)
		v.havocAll(heap, true)
		return v.freshResults(sig, g)
	}
	var callee *ssa.Function
	var bindings []ssa.Value
	if sc := c.StaticCallee(); sc != nil {
		callee = sc
		if mc, ok := c.Value.(*ssa.MakeClosure); ok {
			bindings = mc.Bindings
		}
	} else if mc := v.closureOf(c.Value); mc != nil {
		callee = mc.Fn.(*ssa.Function)
		bindings = mc.Bindings
	}
	if callee == nil {
		if gk := globalFuncVarKey(c.Value); gk != "" {
			if ct, ok := v.P.db.Contracts[gk]; ok {
				ct.Used = true
				v.calls[gk] = true
				v.note("assumed contract of the function stored in package variable %s", gk)
				v.safety("nil-func-call", g, fmt.Sprintf("(not (= %s nilp))", v.val(c.Value)), pos)
				return v.modularSig(gk, sig, ct, append([]string{v.val(c.Value)}, args...), c.Value.Type(), g, heap, pos)
			}
		}
		if fk := fieldFuncVarKey(c.Value); fk != "" {
			if ct, ok := v.P.db.Contracts[fk]; ok {
				ct.Used = true
				v.calls[fk] = true
				v.note("assumed contract of the function stored in struct field %s", fk)
				v.safety("nil-func-call", g, fmt.Sprintf("(not (= %s nilp))", v.val(c.Value)), pos)
				return v.modularSig(fk, sig, ct, append([]string{v.val(c.Value)}, args...), c.Value.Type(), g, heap, pos)
			}
		}
		if tk := funcTypeKey(c.Value); tk != "" {
			if ct, ok := v.P.db.Contracts[tk]; ok {
				ct.Used = true
				v.calls[tk] = true
				v.note("assumed contract of every function value of type %s", strings.TrimPrefix(tk, "functype:"))
				v.safety("nil-func-call", g, fmt.Sprintf("(not (= %s nilp))", v.val(c.Value)), pos)
				return v.modularSig(tk, sig, ct, append([]string{v.val(c.Value)}, args...), c.Value.Type(), g, heap, pos)
			}
		}
		if prm, ok := c.Value.(*ssa.Parameter); ok && v.contract != nil && v.contract.Callbacks[prm.Name()] && !v.inline {
			v.note("callback parameter %s of %s is assumed not to modify memory this function observes", prm.Name(), shortKey(fnKey(v.fn)))
			v.safety("nil-func-call", g, fmt.Sprintf("(not (= %s nilp))", v.val(c.Value)), pos)
			v.advanceClock(heap)
			return v.freshResults(sig, g)
		}
		v.note("dynamic call of an unknown function value treated as arbitrary: %s", c.Value.Type())
		v.safety("nil-func-call", g, fmt.Sprintf("(not (= %s nilp))", v.val(c.Value)), pos)
		v.havocAll(heap, true)
		return v.freshResults(sig, g)
	}
	key := fnKey(callee)
	v.calls[key] = true
	ct := v.P.contractFor(callee)
	if ct != nil && !ct.Inline {
		ct.Used = true
		if ct.Trusted || callee.Blocks == nil || !v.P.isFUC(callee) {
			v.note("assumed contract of %s (body not verified in this run)", key)
		}
		if ct.Pure {
			rs := ""
			if callee.Signature.Recv() != nil {
				rs = v.sortOf(callee.Signature.Recv().Type())
			}
			res := v.ufApp("uf_"+sanitize(key), callee.Signature, rs, args)
			v.assumeResultFacts(sig, res, g)
			v.assumeEnsures(callee, ct, args, res, g, heap)
			return res
		}
		return v.modularCall(callee, ct, args, bindings, g, heap, pos)
	}
	if (ct == nil || !ct.NoInline) && v.P.inRepo(callee) && v.inlinable(callee) {
		return v.GenerateInline(callee, args, bindings, g, heap)
	}
	if v.P.frameFree(callee) {
		v.note("call assumed to leave caller-visible memory unchanged, arbitrary result: %s", key)
		return v.freshResults(sig, g)
	}
	v.note("uncontracted call treated as arbitrary (may modify any non-private memory, any result): %s", key)
	v.havocAll(heap, true)
	return v.freshResults(sig, g)
}

func paramNames(callee *ssa.Function, sig *types.Signature, ct *Contract) []string {
	var names []string
	if sig.Recv() != nil {
		n := sig.Recv().Name()
		if n == "" || n == "_" {
			n = "recv"
		}
		names = append(names, n)
	}
	for k := 0; k < sig.Params().Len(); k++ {
		n := sig.Params().At(k).Name()
		if n == "" || n == "_" {
			n = fmt.Sprintf("p%d", k)
		}
		names = append(names, n)
	}
	if ct != nil && len(ct.Params) > 0 {
		for k := range names {
			if k < len(ct.Params) {
				names[k] = ct.Params[k]
			}
		}
	}
	return names
}

func paramTypes(sig *types.Signature) []types.Type {
	var ts []types.Type
	if sig.Recv() != nil {
		ts = append(ts, sig.Recv().Type())
	}
	for k := 0; k < sig.Params().Len(); k++ {
		ts = append(ts, sig.Params().At(k).Type())
	}
	return ts
}

func (v *VC) callEnv(callee *ssa.Function, sig *types.Signature, ct *Contract, args []string, heap *Heap) *SpecEnv {
	env := &SpecEnv{vars: map[string]TV{}, addr: map[string]ssa.Value{}, heap: heap, bound: map[string]TV{}, before: map[string]TV{}, fn: callee}
	if callee == nil {
		env.fn = v.fn
	}
	names := paramNames(callee, sig, ct)
	ts := paramTypes(sig)
	for k := range names {
		if k < len(args) {
			env.vars[names[k]] = TV{T: args[k], Typ: ts[k]}
			env.vars[fmt.Sprintf("arg%d", k)] = TV{T: args[k], Typ: ts[k]}
		}
	}
	return env
}

// framedHavoc applies the assumed frame clauses of a contract (modifies younger/object/kinds).
func (v *VC) framedHavoc(name string, ct *Contract, pre *SpecEnv, heap *Heap) {
	rootOfExpr := func(src string) string {
		if src == "" {
			return ""
		}
		t := v.ev(mustParse(src), pre)
		return fmt.Sprintf("(root %s)", ptrOf(v.sortTV(t), t.T))
	}
	var mods []modTerm
	var desc []string
	for _, c := range ct.Mods {
		if len(c.Fields) > 0 {
			for _, f := range c.Fields {
				mods = append(mods, v.fieldMod(pre.fn, f))
			}
			desc = append(desc, fmt.Sprintf("{fields %v}", c.Fields))
			continue
		}
		m := modTerm{object: rootOfExpr(c.Object), younger: rootOfExpr(c.Younger)}
		if len(c.Kinds) > 0 {
			m.kinds = map[string]bool{}
			for _, k := range c.Kinds {
				m.kinds[k] = true
			}
		}
		mods = append(mods, m)
		desc = append(desc, fmt.Sprintf("{object %s younger %s kinds %v}", c.Object, c.Younger, c.Kinds))
	}
	v.note("assumed frame of %s: writes only %s (and what it allocates)", name, strings.Join(desc, " or "))
	v.havocFramed(heap, false, mods)
}

func mustParse(src string) SExpr {
	e, err := ParseSpec(src)
	if err != nil {
		panic(specErr{err.Error()})
	}
	return e
}

// havocGhosts gives the named ghost variables ("*" = all declared) arbitrary new values.
func (v *VC) havocGhosts(set map[string]bool, heap *Heap) {
	var names []string
	for g := range v.P.db.Ghosts {
		if set[g] || (set["*"] && !v.P.db.StableGhosts[g]) {
			names = append(names, g)
		} else if set["*"] && v.P.db.StableGhosts[g] {
			v.note("ghost %s is declared stable: callees without a contract are assumed not to change it", g)
		}
	}
	sort.Strings(names)
	for _, g := range names {
		key := "ghost:" + g
		v.registerKey(key, "RAW:"+v.P.db.Ghosts[g])
		v.heapVer++
		nm := fmt.Sprintf("H%d_%s", v.heapVer, sanitize(key))
		v.emit("(declare-const %s %s)", nm, v.P.db.Ghosts[g])
		heap.m[key] = nm
	}
}

// globalFuncVarKey: "<pkgpath>.<name>" when x is the value loaded from a package-level variable.
func globalFuncVarKey(x ssa.Value) string {
	u, ok := x.(*ssa.UnOp)
	if !ok || u.Op != token.MUL {
		return ""
	}
	gl, ok := u.X.(*ssa.Global)
	if !ok || gl.Pkg == nil {
		return ""
	}
	return gl.Pkg.Pkg.Path() + "." + gl.Name()
}

// bindFree makes the captured variables of a closure visible to its contract at a call site.
func bindFree(env *SpecEnv, callee *ssa.Function, bindings []ssa.Value) {
	for k, fv := range callee.FreeVars {
		if k < len(bindings) {
			env.addr[fv.Name()] = bindings[k]
		}
	}
}

func bindResults(env *SpecEnv, sig *types.Signature, res []string) {
	rs := sig.Results()
	for k := 0; k < rs.Len(); k++ {
		tv := TV{T: res[k], Typ: rs.At(k).Type()}
		if nm := rs.At(k).Name(); nm != "" && nm != "_" {
			env.vars[nm] = tv
		}
		env.vars[fmt.Sprintf("result%d", k)] = tv
		if k == 0 {
			env.vars["result"] = tv
		}
	}
}

func (v *VC) modularCall(callee *ssa.Function, ct *Contract, args []string, bindings []ssa.Value, g string, heap *Heap, pos token.Pos) []string {
	sig := callee.Signature
	pre := v.callEnv(callee, sig, ct, args, heap.clone())
	bindFree(pre, callee, bindings)
	for _, r := range ct.Requires {
		v.oblige("call("+callee.Name()+").requires", r.Label, g, v.evalSpec(r, pre), pos, r.Src)
		v.assume(g, v.evalSpec(r, pre))
	}
	if len(ct.Mods) > 0 {
		v.framedHavoc(shortKey(fnKey(callee)), ct, pre, heap)
	} else if !ct.ModNothing {
		v.havocAll(heap, false)
	} else if ct.describesFreshMemory() {
		// the contract talks about objects the callee allocates: their cells must be free to take
		// the described values, everything older is unchanged
		v.havocFramed(heap, false, []modTerm{})
	} else {
		v.advanceClock(heap) // the callee may allocate
	}
	v.havocGhosts(v.P.ghostMod(callee, map[*ssa.Function]bool{}), heap)
	res := v.freshResults(sig, g)
	post := v.callEnv(callee, sig, ct, args, heap)
	bindFree(post, callee, bindings)
	post.old = pre
	bindResults(post, sig, res)
	v.applySets(ct, post, heap)
	for _, e := range ct.Ensures {
		v.assumeCalleeEnsures(g, e, post)
	}
	return res
}

// assumeCalleeEnsures: a postcondition of a callee that talks about the callee's own locals cannot
// be stated at the call site; it is simply not assumed there (fewer assumptions, still sound).
func (v *VC) assumeCalleeEnsures(g string, e Clause, post *SpecEnv) {
	if e.Assumed {
		v.note("posited (unchecked) postcondition [%s]: %s", e.Label, e.Src)
	}
	t, err := v.evalClause(e, post)
	if err != nil {
		if strings.Contains(err.Error(), "unknown identifier") {
			return
		}
		v.specErrors = append(v.specErrors, err.Error())
		return
	}
	v.assume(g, t)
}

func (v *VC) assumeEnsures(callee *ssa.Function, ct *Contract, args, res []string, g string, heap *Heap) {
	if len(ct.Ensures) == 0 {
		return
	}
	post := v.callEnv(callee, callee.Signature, ct, args, heap)
	post.old = v.callEnv(callee, callee.Signature, ct, args, heap.clone())
	bindResults(post, callee.Signature, res)
	for _, e := range ct.Ensures {
		v.assumeCalleeEnsures(g, e, post)
	}
}

func (v *VC) applySets(ct *Contract, post *SpecEnv, heap *Heap) {
	if len(ct.Sets) == 0 {
		return
	}
	// all updates read the ghost state as it was before any of them
	snap := *post
	snap.heap = heap.clone()
	if post.old != nil && post.old.heap != nil {
		// ghost variables are read in the pre-call state (they may just have been havoced)
		for g := range v.P.db.Ghosts {
			key := "ghost:" + g
			v.registerKey(key, "RAW:"+v.P.db.Ghosts[g])
			snap.heap.m[key] = v.heapGet(post.old.heap, key, "RAW:"+v.P.db.Ghosts[g])
		}
	}
	var keys, terms []string
	for _, gs := range ct.Sets {
		srt, ok := v.P.db.Ghosts[gs.Var]
		if !ok {
			v.specErrors = append(v.specErrors, fmt.Sprintf("%s: sets of undeclared ghost %s", ct.Key, gs.Var))
			continue
		}
		key := "ghost:" + gs.Var
		v.registerKey(key, "RAW:"+srt)
		keys = append(keys, key)
		terms = append(terms, v.evalSpec(Clause{Src: gs.Src, File: ct.File, Line: ct.Line}, &snap))
	}
	for k := range keys {
		v.heapSet(heap, keys[k], terms[k])
	}
}

// modularSig applies a contract when only a signature is known (interface methods).
func (v *VC) modularSig(name string, sig *types.Signature, ct *Contract, args []string, recvType types.Type, g string, heap *Heap, pos token.Pos) []string {
	mk := func(h *Heap) *SpecEnv {
		env := &SpecEnv{vars: map[string]TV{}, addr: map[string]ssa.Value{}, heap: h, bound: map[string]TV{}, before: map[string]TV{}, fn: v.fn}
		env.vars["recv"] = TV{T: args[0], Typ: recvType}
		env.vars["arg0"] = env.vars["recv"]
		for k := 0; k < sig.Params().Len(); k++ {
			n := sig.Params().At(k).Name()
			if n == "" || n == "_" {
				n = fmt.Sprintf("p%d", k)
			}
			if k < len(ct.Params) {
				n = ct.Params[k]
			}
			env.vars[n] = TV{T: args[k+1], Typ: sig.Params().At(k).Type()}
			env.vars[fmt.Sprintf("arg%d", k+1)] = env.vars[n]
		}
		return env
	}
	pre := mk(heap.clone())
	for _, r := range ct.Requires {
		v.oblige("call("+name+").requires", r.Label, g, v.evalSpec(r, pre), pos, r.Src)
		v.assume(g, v.evalSpec(r, pre))
	}
	if len(ct.Mods) > 0 {
		v.framedHavoc(name, ct, pre, heap)
	} else if !ct.ModNothing {
		v.havocAll(heap, false)
	} else if ct.describesFreshMemory() {
		v.havocFramed(heap, false, []modTerm{})
	} else {
		v.advanceClock(heap) // the callee may allocate
	}
	res := v.freshResults(sig, g)
	post := mk(heap)
	post.old = pre
	bindResults(post, sig, res)
	v.applySets(ct, post, heap)
	for _, e := range ct.Ensures {
		v.assume(g, v.evalSpec(e, post))
	}
	return res
}

func (v *VC) assumeEnsuresSig(name string, sig *types.Signature, ct *Contract, args []string, recvType types.Type, res []string, g string, heap *Heap) {
	if len(ct.Ensures) == 0 {
		return
	}
	env := &SpecEnv{vars: map[string]TV{}, addr: map[string]ssa.Value{}, heap: heap, bound: map[string]TV{}, before: map[string]TV{}, fn: v.fn}
	env.vars["recv"] = TV{T: args[0], Typ: recvType}
	env.vars["arg0"] = env.vars["recv"]
	for k := 0; k < sig.Params().Len(); k++ {
		n := sig.Params().At(k).Name()
		if n == "" || n == "_" {
			n = fmt.Sprintf("p%d", k)
		}
		if k < len(ct.Params) {
			n = ct.Params[k]
		}
		env.vars[n] = TV{T: args[k+1], Typ: sig.Params().At(k).Type()}
		env.vars[fmt.Sprintf("arg%d", k+1)] = env.vars[n]
	}
	env.old = env
	bindResults(env, sig, res)
	for _, e := range ct.Ensures {
		v.assume(g, v.evalSpec(e, env))
	}
}

// fieldMod resolves "T.f" (T looked up in the scope of fn's package) to the frame condition
// "p is the cell of field f of some struct of type T".
func (v *VC) fieldMod(fn *ssa.Function, spec string) modTerm {
	i := strings.LastIndex(spec, ".")
	if i <= 0 {
		panic(specErr{"bad field in modifies fields: " + spec})
	}
	gt := v.lookupGoType(fn, spec[:i])
	if gt == nil {
		panic(specErr{"modifies fields: unknown type " + spec[:i]})
	}
	st, ok := gt.Underlying().(*types.Struct)
	if !ok {
		panic(specErr{"modifies fields: not a struct: " + spec[:i]})
	}
	for k := 0; k < st.NumFields(); k++ {
		if st.Field(k).Name() != spec[i+1:] {
			continue
		}
		ft := st.Field(k).Type()
		switch ft.Underlying().(type) {
		case *types.Struct, *types.Array:
			panic(specErr{"modifies fields: field of struct/array type not supported: " + spec})
		}
		key, srt := v.heapKey(ft)
		v.registerKey(key, srt)
		v.features["tyof"] = true
		return modTerm{fieldKey: key, fieldCond: fmt.Sprintf("(and ((_ is fld) p) (= (fld-idx p) %d) (= (tyof (fld-base p)) %d))", k, v.pointeeID(gt))}
	}
	panic(specErr{"modifies fields: no field " + spec})
}

// fieldFuncVarKey: "field:<pkgpath>.<Type>.<field>" when x is the value loaded from a func-typed
// field of a named struct type.
func fieldFuncVarKey(x ssa.Value) string {
	u, ok := x.(*ssa.UnOp)
	if !ok || u.Op != token.MUL {
		return ""
	}
	fa, ok := u.X.(*ssa.FieldAddr)
	if !ok {
		return ""
	}
	pt, ok := fa.X.Type().Underlying().(*types.Pointer)
	if !ok {
		return ""
	}
	nt, ok := pt.Elem().(*types.Named)
	if !ok || nt.Obj().Pkg() == nil {
		return ""
	}
	st, ok := nt.Underlying().(*types.Struct)
	if !ok {
		return ""
	}
	return "field:" + nt.Obj().Pkg().Path() + "." + nt.Obj().Name() + "." + st.Field(fa.Field).Name()
}

// funcTypeKey: "functype:<pkgpath>.<Name>" when x is a value of a named func type.
func funcTypeKey(x ssa.Value) string {
	nt, ok := x.Type().(*types.Named)
	if !ok || nt.Obj().Pkg() == nil {
		return ""
	}
	if _, isSig := nt.Underlying().(*types.Signature); !isSig {
		return ""
	}
	return "functype:" + nt.Obj().Pkg().Path() + "." + nt.Obj().Name()
}
