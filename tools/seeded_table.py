#!/usr/bin/env python3
"""Render the seeded-change detection table (markdown) from seeded/results_final.txt and seeded/*/meta.json."""
import json, glob, re, os, sys
V = os.path.dirname(os.path.dirname(os.path.abspath(__file__)))
res = {}
for f in sys.argv[1:] or [os.path.join(V, 'seeded', 'results_final.txt')]:
    for l in open(f):
        m = re.match(r'(C\d+)/(\d+)(?: \(check (C\d+)\))?: (DETECTED|MISSED|PATCH DOES NOT APPLY)(.*)', l)
        if not m:
            continue
        pid, k, chk, verdict, rest = m.groups()
        names = [re.sub(r'\.txt$', '', n) for n in rest.split() if n.endswith('.txt')]
        short = []
        for n in names[:2]:
            n = re.sub(r'^_p?github_com_anyproto_any_sync_', '', n)
            m2 = re.search(r'([A-Za-z0-9$]+(?:_[A-Za-z0-9$]+)?)__((?:ensures|loop\d+|nil|index|call|slice|cover|type|int|make|div|explicit)_.*)$', n)
            if m2:
                n = m2.group(1).lstrip('_') + ': ' + m2.group(2)
            short.append(n[-90:])
        key = (pid, int(k))
        if verdict == 'DETECTED' or key not in res or res[key][0] != 'DETECTED':
            res[key] = (verdict, chk or pid, short)
why = {}
wf = os.path.join(V, 'seeded', 'missed_reasons.json')
if os.path.exists(wf):
    why = json.load(open(wf))
print('| change | where | verdict | by check | first failed obligation / reason for the miss |')
print('|---|---|---|---|---|')
tot = det = other = 0
for d in sorted(glob.glob(os.path.join(V, 'seeded', 'C*', '[0-9]*')), key=lambda p: (p.split('/')[-2], int(p.split('/')[-1]))):
    pid, k = d.split('/')[-2], int(d.split('/')[-1])
    patch = open(os.path.join(d, 'patch.diff')).read()
    files = re.findall(r'^diff --git a/(\S+)', patch, re.M)
    fn = re.findall(r'^@@.*@@ func (?:\([^)]*\) )?(\w+)', patch, re.M)
    where = (files[0].split('/')[-1] if files else '?') + (' ' + fn[0] if fn else '')
    verdict, chk, names = res.get((pid, k), ('not run', pid, []))
    tot += 1
    if verdict == 'DETECTED':
        if chk == pid:
            det += 1
        else:
            other += 1
        note = '; '.join(names)
    else:
        note = why.get(f'{pid}/{k}', '')
    print(f'| {pid}/{k} | {where} | {verdict.lower()} | {chk} | {note} |')
print()
print(f'{det} of {tot} stored changes are reported by the check of their property' + (f', {other} more by the check of another property (column "by check")' if other else '') + '.')
