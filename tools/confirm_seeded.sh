#!/bin/bash
# usage: tools/confirm_seeded.sh <ID> <k> <test-packages...>
# Confirms a sub-agent's change in the scratch worktree /tmp/wt/<ID>: builds, existing tests pass,
# demo fails with the change and passes without. On success copies it to /verif/seeded/<ID>/<k>/.
set -u
ID=$1; K=$2; shift 2; PKGS="$@"
WT=/tmp/wt/$ID; OUT=/tmp/wt/$ID-out/$K
export GOFLAGS=-mod=mod GOPROXY=off
cd $WT || exit 2
git checkout -q -- . 2>/dev/null
DEMO=$(ls $OUT/*_test.go | head -1)
DDIR=$(python3 -c "import json;print(json.load(open('$OUT/meta.json'))['demo_dir'])")
DRUN=$(python3 -c "import json;print(json.load(open('$OUT/meta.json'))['demo_run'])")
git apply $OUT/patch.diff || { echo "PATCH DOES NOT APPLY"; exit 1; }
go build ./... >/dev/null 2>&1 || { echo "BUILD FAILS"; git checkout -q -- .; exit 1; }
go test -vet=off -count=1 $PKGS > /tmp/wt/$ID-out/$K/tests_with_change.log 2>&1 || { echo "EXISTING TESTS FAIL WITH CHANGE"; tail -5 /tmp/wt/$ID-out/$K/tests_with_change.log; git checkout -q -- .; exit 1; }
cp $DEMO $WT/$DDIR/
( eval "$DRUN" ) > /tmp/wt/$ID-out/$K/demo_with_change.log 2>&1 && { echo "DEMO PASSES WITH CHANGE (should fail)"; rm -f $WT/$DDIR/$(basename $DEMO); git checkout -q -- .; exit 1; }
git checkout -q -- . 
( eval "$DRUN" ) > /tmp/wt/$ID-out/$K/demo_without_change.log 2>&1 || { echo "DEMO FAILS WITHOUT CHANGE (should pass)"; tail -5 /tmp/wt/$ID-out/$K/demo_without_change.log; rm -f $WT/$DDIR/$(basename $DEMO); exit 1; }
rm -f $WT/$DDIR/$(basename $DEMO)
find $WT -name zz_contracts_verif.go -delete 2>/dev/null
mkdir -p /verif/seeded/$ID/$K
cp $OUT/patch.diff $DEMO /verif/seeded/$ID/$K/
python3 - <<PY
import json
m=json.load(open('$OUT/meta.json'))
m['confirmed_by_me']={'build':'go build ./... ok','existing_tests':'go test -vet=off -count=1 $PKGS: pass with change','demo_with_change':'fails','demo_without_change':'passes'}
json.dump(m,open('/verif/seeded/$ID/$K/meta.json','w'),indent=1)
PY
echo "CONFIRMED $ID/$K"
