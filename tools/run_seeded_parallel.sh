#!/bin/bash
# usage: tools/run_seeded_parallel.sh <workers> <spec>...   spec = ID/k or ID/k:CHECKID
# Runs stored seeded changes in parallel, each worker in its own scratch worktree of /repo (outside
# /repo and /verif, removed afterwards); /repo itself is not touched. Output lines as run_seeded.sh.
# Evidence files written by these runs describe violating trees: re-run ./run-all.sh afterwards.
cd "$(dirname "$0")/.."
W=$1; shift
V=$PWD
rm -rf /tmp/seedwt; mkdir -p /tmp/seedwt
printf '%s\n' "$@" > /tmp/seedwt/queue
worker() {
  i=$1; wt=/tmp/seedwt/w$i
  git -C /repo worktree add --detach $wt HEAD >/dev/null 2>&1
  while true; do
    spec=$(flock /tmp/seedwt/lock sh -c 'head -1 /tmp/seedwt/queue; sed -i 1d /tmp/seedwt/queue')
    [ -z "$spec" ] && break
    ID=${spec%%/*}; rest=${spec#*/}; k=${rest%%:*}; CHK=$ID; [[ "$rest" == *:* ]] && CHK=${rest#*:}
    d=$V/seeded/$ID/$k
    if ! git -C $wt apply --check $d/patch.diff 2>/dev/null; then echo "$ID/$k: PATCH DOES NOT APPLY (code changed since)"; continue; fi
    git -C $wt apply $d/patch.diff
    out=$(REPO_DIR=$wt $V/check $CHK quick 2>&1); rc=$?
    git -C $wt apply -R $d/patch.diff
    nv=$(echo "$out" | grep -c '^VIOLATION')
    first=$(echo "$out" | grep '^VIOLATION' | head -2 | sed 's/.*replay=//' | xargs -n1 basename 2>/dev/null | tr '\n' ' ')
    if [ $rc -ne 0 ]; then echo "$ID/$k (check $CHK): DETECTED ($nv violation lines) $first"; else echo "$ID/$k (check $CHK): MISSED"; fi
  done
  git -C /repo worktree remove --force $wt >/dev/null 2>&1
}
for i in $(seq 1 $W); do worker $i & done
wait
git -C /repo worktree prune
rm -rf /tmp/seedwt
