#!/usr/bin/env python3
# rewrites the generated tables of DESIGN.md: 11.4 (cost, from evidence), 11.5 (defects, from
# known_findings.jsonl) and the seeded table of section 12 (from seeded/results_final.txt)
import json,glob,os,re,subprocess
p='/verif/DESIGN.md'
s=open(p).read()
def table_after(s, header_prefix, new_table):
    i=s.index(header_prefix)
    j=i
    lines=s[i:].split('\n')
    n=0
    for l in lines:
        if l.startswith('|'): n+=len(l)+1
        else: break
    return s[:i]+new_table.rstrip('\n')+'\n'+s[i+n:]
# 11.4
rows=['| id | functions | obligations | cover checks | bounded stand-ins | quick wall time |','|---|---|---|---|---|---|']
for f in sorted(glob.glob('/verif/evidence/C*.json')):
    e=json.load(open(f)); c=e.get('coverage',{})
    b=c.get('bounded_not_proved') or []
    rows.append(f"| {os.path.basename(f)[:-5]} | {len(c.get('functions_under_contract',[]))} | {c.get('obligations','?')} | {c.get('cover_checks','?')} | {len(b) if isinstance(b,list) else b} | {e.get('wall_s',0):.1f} s |")
s=table_after(s,'| id | functions | obligations | cover checks |','\n'.join(rows))
# 11.5
rows=['| property | commit | obligation that failed | what was wrong |','|---|---|---|---|']
for l in open('/verif/known_findings.jsonl'):
    k=json.loads(l)
    fn=k['function'].split('/')[-1]
    what=k['what'].split(k['commit'],1)[-1].strip()
    rows.append(f"| {k['property']} | {k['commit']} | `{fn}` `{k['obligation']}` | {what} |")
s=table_after(s,'| property | commit | obligation that failed | what was wrong |','\n'.join(rows))
# 12
t=subprocess.run(['python3','/verif/tools/seeded_table.py'],capture_output=True,text=True).stdout
tbl,_,tail=t.partition('\n\n')
i=s.index('| change | where | verdict | by check |')
rest=s[i:]
m=re.search(r'\n\d+ of \d+ stored changes are reported by the check of their property[^\n]*\.\n',rest)
s=s[:i]+t.rstrip('\n')+'\n'+rest[m.end():]
n=len(glob.glob('/verif/seeded/C*/[0-9]*'))
s=s.replace('SEEDED_TOTAL changes are stored',f'{n} changes are stored')
s=re.sub(r'\d+ changes are stored\. After each round',f'{n} changes are stored. After each round',s)
open(p,'w').write(s)
print('tables updated;',n,'seeded changes')
