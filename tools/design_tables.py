#!/usr/bin/env python3
# prints the tables of DESIGN.md 11.4 (from evidence/*.json) and 11.5 (from known_findings.jsonl)
import json,glob,os
print('| id | functions | obligations | cover checks | bounded stand-ins |\n|---|---|---|---|---|')
for f in sorted(glob.glob('/verif/evidence/C*.json')):
    e=json.load(open(f)); c=e.get('coverage',{})
    b=c.get('bounded_not_proved') or []
    print(f"| {os.path.basename(f)[:-5]} | {len(c.get('functions_under_contract',[]))} | {c.get('obligations','?')} | {c.get('cover_checks','?')} | {len(b) if isinstance(b,list) else b} |")
print()
print('| property | commit | obligation that failed | what was wrong |\n|---|---|---|---|')
for l in open('/verif/known_findings.jsonl'):
    k=json.loads(l)
    fn=k['function'].split('/')[-1]
    what=k['what'].split(k['commit'],1)[-1].strip()
    print(f"| {k['property']} | {k['commit']} | `{fn}` `{k['obligation']}` | {what} |")
