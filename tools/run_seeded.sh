#!/bin/bash
# usage: tools/run_seeded.sh <ID>...   Applies each stored seeded change of the property to /repo,
# runs the property's quick check, and undoes the change straight afterwards. Never commits in /repo.
cd "$(dirname "$0")/.."
for ID in "$@"; do
  for d in seeded/$ID/[0-9]*; do
    k=$(basename $d)
    if ! git -C /repo apply --check $PWD/$d/patch.diff 2>/dev/null; then echo "$ID/$k: PATCH DOES NOT APPLY (code changed since)"; continue; fi
    git -C /repo apply $PWD/$d/patch.diff
    out=$(./check $ID quick 2>&1); rc=$?
    git -C /repo apply -R $PWD/$d/patch.diff
    nv=$(echo "$out" | grep -c '^VIOLATION')
    first=$(echo "$out" | grep '^VIOLATION' | head -2 | sed 's/.*replay=//' | xargs -n1 basename 2>/dev/null | tr '\n' ' ')
    if [ $rc -ne 0 ]; then echo "$ID/$k: DETECTED ($nv violation lines) $first"; else echo "$ID/$k: MISSED"; fi
  done
done
git -C /repo status --short | grep -v zz_contracts | head -3
