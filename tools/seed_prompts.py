#!/usr/bin/env python3
# usage: tools/seed_prompts.py <n> <ID[:avoid1,avoid2,...]>...   writes /tmp/wt/prompt_<ID>.txt
# The brief a seeding sub-agent gets: only the property text (from properties.jsonl), its own scratch
# worktree, and optionally names of functions NOT to touch (so a new round lands on new spots).
import json,sys
tmpl='''You are helping test a verification tool by producing realistic REGRESSIONS of a Go library. You work ONLY inside your own scratch git worktree {wt} (a checkout of the Go module github.com/anyproto/any-sync). Do not read or write anything under /verif or /repo. Write your results only under {out}.

Environment: no network. Before every go command: export GOFLAGS=-mod=mod GOPROXY=off  (do NOT set GOSUMDB=off: the default `go` must auto-switch to the toolchain the module requires, which is cached). Run go commands from {wt}. Tests: `go test -vet=off -count=1 ./path/...`. Keep CPU use modest (run only the packages you need; other jobs share this machine).

The library must keep this PROPERTY (this text is all you get; read the code yourself):

TITLE: {title}
STATEMENT: {statement}
QUANTIFIED OVER: {quant}
CODE ANCHORS: files {files}; mechanisms {mech}

TASK: produce {n} DIFFERENT, realistic, property-breaking changes to the library's non-test source (the kind of slip a maintainer could plausibly make in a refactor or "optimisation": a dropped or weakened check, wrong operand, off-by-one, wrong field, reordered steps, a condition that only fails for an unusual input...). Spread them over different functions/files among the anchors (and the functions those call).{avoid} Each change must:
 1. compile (`go build ./...`),
 2. keep the EXISTING test suite of the affected packages (and obvious dependents) passing, unedited,
 3. really break the property, but only for something specific (a particular input shape, order, configuration, or history) - not on every call,
 4. come with a small DEMO Go test file (new _test.go file in the affected package, test names starting with TestSeeded) that FAILS with the change applied and PASSES on the unmodified tree. The demo should exercise the real code through its normal API as far as possible. Exactly ONE demo test file per change.
 Do not touch existing test files. Do not add new dependencies. Keep each change small (a few lines).

For each change k = 1..{n} write into {out}/k/ :
  - patch.diff : `git diff` of ONLY the source change (not the demo), relative to the worktree HEAD, applicable with `git apply` from the repo root;
  - the demo test file (same file name it has in the package);
  - meta.json with fields: property ("{pid}"), summary (what was changed and why it breaks the property), needs (what specific input/history is needed to see it), demo_dir (package dir relative to repo root), demo_file, demo_run (the exact go test command), verified (what you ran and saw: build ok, which existing tests pass with the change, demo fails with / passes without).
Verify every claim by actually running the commands, with the change applied and after reverting it (`git checkout -- .` restores the tree; your demo file is untracked so keep a copy). Leave the worktree clean (no applied change) at the end. If the unmodified code itself already violates the property in some way you notice, write that to {out}/NOTE_baseline.txt with a concrete reproducer, and avoid relying on it in your demos.
Finish with a short report listing the changes and the verification outcome of each.'''
n=int(sys.argv[1])
want={}
for a in sys.argv[2:]:
    i,_,av=a.partition(':'); want[i]=[x for x in av.split(',') if x]
for l in open('/verif/properties.jsonl'):
    d=json.loads(l)
    if d['id'] in want:
        av=want[d['id']]
        avoid=(' Do NOT place a change in these functions (they were used before): '+', '.join(av)+'.') if av else ''
        s=tmpl.format(wt='/tmp/wt/'+d['id'],out='/tmp/wt/'+d['id']+'-out',title=d['title'],statement=d['statement'],quant=d['quantifier']['text'],files=', '.join(d['anchors']['files']),mech='; '.join(m['name']+' ('+m['where']+')' for m in d['anchors']['mechanism']),n=n,pid=d['id'],avoid=avoid)
        open('/tmp/wt/prompt_'+d['id']+'.txt','w').write(s)
        print('wrote /tmp/wt/prompt_'+d['id']+'.txt')
