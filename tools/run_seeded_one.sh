#!/bin/bash
# usage: tools/run_seeded_one.sh <ID>/<k> [check-ID]...  (like run_seeded.sh for single stored changes; optional other property check)
cd "$(dirname "$0")/.."
for spec in "$@"; do
  ID=${spec%%/*}; rest=${spec#*/}; k=${rest%%:*}; CHK=$ID; [[ "$rest" == *:* ]] && CHK=${rest#*:}
  d=seeded/$ID/$k
  if ! git -C /repo apply --check $PWD/$d/patch.diff 2>/dev/null; then echo "$ID/$k: PATCH DOES NOT APPLY (code changed since)"; continue; fi
  git -C /repo apply $PWD/$d/patch.diff
  out=$(./check $CHK quick 2>&1); rc=$?
  git -C /repo apply -R $PWD/$d/patch.diff
  nv=$(echo "$out" | grep -c '^VIOLATION')
  first=$(echo "$out" | grep '^VIOLATION' | head -2 | sed 's/.*replay=//' | xargs -n1 basename 2>/dev/null | tr '\n' ' ')
  if [ $rc -ne 0 ]; then echo "$ID/$k (check $CHK): DETECTED ($nv violation lines) $first"; else echo "$ID/$k (check $CHK): MISSED"; fi
done
git -C /repo status --short | grep -v zz_contracts | head -3
