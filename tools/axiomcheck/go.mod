module axiomcheck

go 1.23
