package axiomcheck

// Executable sanity check of the assumed standard-library axioms in /verif/catalog/std.gospec:
// each axiom is evaluated with the real library function on a grid of small inputs (bounded, not a
// proof). It exists because a wrong axiom makes every obligation that uses it vacuous.

import (
	"strings"
	"testing"
)

var samples = []string{"", ".", "a", "a.", ".a", "a.b", "a.b.c", "..", "abc", "a..b", "x.y.z.w", "long.separator.here", "ab"}

func TestLastIndexRange(t *testing.T) {
	for _, s := range samples {
		for _, sep := range samples {
			r := strings.LastIndex(s, sep)
			if !(r == -1 || (0 <= r && r <= len(s)-len(sep))) {
				t.Fatalf("lastIndex.range violated for %q %q: %d", s, sep, r)
			}
		}
	}
}

func TestStrIndexRange(t *testing.T) {
	for _, s := range samples {
		for _, sep := range samples {
			r := strings.Index(s, sep)
			if !(r == -1 || (0 <= r && r <= len(s)-len(sep))) {
				t.Fatalf("strIndex.range violated for %q %q: %d", s, sep, r)
			}
		}
	}
}
