#!/bin/bash
# re-validate stored seeded changes on the current /repo HEAD: the demo must FAIL with the change applied
W=$1; shift
mkdir -p /tmp/reval; printf '%s\n' "$@" > /tmp/reval/queue
worker() {
  wt=/tmp/reval/w$1
  git -C /repo worktree add --detach $wt HEAD >/dev/null 2>&1
  find $wt -name zz_contracts_verif.go -delete
  export GOFLAGS=-mod=mod GOPROXY=off
  while true; do
    spec=$(flock /tmp/reval/lock sh -c 'head -1 /tmp/reval/queue; sed -i 1d /tmp/reval/queue')
    [ -z "$spec" ] && break
    d=/verif/seeded/$spec
    dd=$(python3 -c "import json;print(json.load(open('$d/meta.json'))['demo_dir'])")
    if ! git -C $wt apply $d/patch.diff 2>/dev/null; then echo "$spec: PATCH DOES NOT APPLY"; continue; fi
    names=""
    for f in $d/*_test.go; do cp $f $wt/$dd/; names="$names|$(grep -oE '^func (Test[A-Za-z0-9_]+)' $f | sed 's/func //' | tr '\n' '|')"; done
    names=$(echo "$names" | sed 's/||*/|/g; s/^|//; s/|$//')
    out=$(cd $wt && timeout 600 go test -vet=off -count=1 -run "^($names)\$" ./$dd/ 2>&1); rc=$?
    for f in $d/*_test.go; do rm -f $wt/$dd/$(basename $f); done
    git -C $wt checkout -q -- .
    if [ $rc -ne 0 ]; then echo "$spec: demo fails with the change (still a break)"; else echo "$spec: DEMO PASSES WITH THE CHANGE (no longer a break?)"; fi
  done
  git -C /repo worktree remove --force $wt >/dev/null 2>&1
}
for i in $(seq 1 $W); do worker $i & done
wait
git -C /repo worktree prune
