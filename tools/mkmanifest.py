#!/usr/bin/env python3
"""Regenerate /verif/MANIFEST.json from props/*.json and not_applicable.json."""
import json, glob, os, subprocess
V = os.path.dirname(os.path.dirname(os.path.abspath(__file__)))
props = [json.loads(l) for l in open(os.path.join(V, 'properties.jsonl'))]
na = json.load(open(os.path.join(V, 'not_applicable.json')))
checks, claimed = [], set()
for p in props:
    f = os.path.join(V, 'props', p['id'] + '.json')
    if not os.path.exists(f):
        continue
    c = json.load(open(f))
    if not c.get('claimed', True):
        continue
    claimed.add(p['id'])
    checks.append({
        "property_id": p['id'],
        "quick_cmd": f"./check {p['id']} quick",
        "thorough_cmd": f"./check {p['id']} thorough",
        "evidence_file": f"/verif/evidence/{p['id']}.json",
        "replay_cmd_template": "bin/govc replay {path}",
        "engine": "govc",
        "level_claimed": {"category": "proof",
                          "text": "Contract-based deductive verification of the real code. Decided: " + c['decided'] + " NOT decided by this check: " + c['undecided'],
                          "design_ref": "DESIGN.md §4 " + p['id']},
        "level_note": "Trusted: " + "; ".join(c.get('trusted_base', [])) + ". Assumed contracts / abstractions actually used are listed per run in the evidence file (assumptions).",
        "technique": "contract-based deductive verification: VCs generated from go/ssa of /repo (contracts in zz_contracts_verif.go), discharged by z3/cvc5",
    })
try:
    hooks = subprocess.check_output(['git', '-C', '/repo', 'log', '--format=%H', '--grep=^verif-hook:'], text=True).split()
except Exception:
    hooks = []
m = {
 "version": 1,
 "setup_cmd": "./setup.sh",
 "hooks": {"guard": "verif",
           "enable": "contract files <pkg>/zz_contracts_verif.go carry //go:build verif and contain only comments (+ ghost lemma functions where stated); checks load /repo with -tags=verif",
           "baseline_off_cmd": "cd /repo && go test -vet=off -count=1 ./...",
           "source_commits": hooks, "add_only": True},
 "engines": [{"name": "govc", "path": "/verif/cmd/govc", "serves_properties": sorted(claimed),
              "kind_free_text": "home-grown VC generator over go/ssa of /repo's working tree + SMT (z3 5.1.0, cvc5 1.0.3, z3 4.8.12 raced per obligation)"}],
 "checks": checks,
 "not_applicable": [{"property_id": p['id'], "reason": na.get(p['id'], "machinery for this property not built yet (work in progress; see DESIGN.md)")} for p in props if p['id'] not in claimed],
 "notes": "All checks: ./check <id> quick|thorough. Known findings: /verif/known_findings.jsonl. Self-test mutants: bin/govc selftest <id>.",
}
json.dump(m, open(os.path.join(V, 'MANIFEST.json'), 'w'), indent=1)
print("claimed:", sorted(claimed))
