#!/bin/sh
# run every claimed check (quick by default) and summarise
cd "$(dirname "$0")"
tier="${1:-quick}"
rc=0
for id in $(python3 -c "import json;print(' '.join(c['property_id'] for c in json.load(open('MANIFEST.json'))['checks']))"); do
  ./check $id $tier || rc=1
done
exit $rc
