package handshake

// Replay for C14 / (*handshake).release.ensures[resets_version]: the pooled remoteCred keeps the
// previous connection's Version/ClientVersion; a peer that omits the version (proto3 zero value is
// not on the wire and UnmarshalVT does not reset absent fields) then passes version gating with the
// previous peer's version.

import (
	"net"
	"testing"
	"time"

	"github.com/anyproto/any-sync/net/secureservice/handshake/handshakeproto"
)

type replayVersionChecker struct{}

func (replayVersionChecker) MakeCredentials(remotePeerId string) *handshakeproto.Credentials {
	return &handshakeproto.Credentials{Type: handshakeproto.CredentialsType_SkipVerify, Version: 7}
}

func (replayVersionChecker) CheckCredential(remotePeerId string, cred *handshakeproto.Credentials) (Result, error) {
	if cred.Version != 7 {
		return Result{}, ErrIncompatibleVersion
	}
	return Result{ProtoVersion: cred.Version}, nil
}

func replayPeer(t *testing.T, c net.Conn, version uint32) {
	h := &handshake{conn: c, remoteCred: &handshakeproto.Credentials{}, remoteAck: &handshakeproto.Ack{}, localAck: &handshakeproto.Ack{}, remoteProto: &handshakeproto.Proto{}, buf: make([]byte, 0, 1024)}
	_ = h.writeCredentials(&handshakeproto.Credentials{Type: handshakeproto.CredentialsType_SkipVerify, Version: version})
	if _, err := h.readMsg(msgTypeAck, msgTypeCred); err != nil {
		return
	}
	_ = h.writeAck(handshakeproto.Error_Null)
	_, _ = h.readMsg(msgTypeAck)
}

func TestReplayC14StaleVersionFromPool(t *testing.T) {
	h := newHandshake()
	// first connection: a peer with an accepted version
	c1a, c1b := net.Pipe()
	go replayPeer(t, c1b, 7)
	_ = c1a.SetDeadline(time.Now().Add(5 * time.Second))
	if _, err := incomingHandshake(h, c1a, "peer1", replayVersionChecker{}); err != nil {
		t.Skipf("first handshake failed: %v", err)
	}
	// second connection served by the same pooled object: the peer sends no version at all
	c2a, c2b := net.Pipe()
	go replayPeer(t, c2b, 0)
	_ = c2a.SetDeadline(time.Now().Add(5 * time.Second))
	res, err := incomingHandshake(h, c2a, "peer2", replayVersionChecker{})
	if err == nil {
		t.Fatalf("a peer that sent no protocol version was accepted with the previous connection's version %d", res.ProtoVersion)
	}
}
