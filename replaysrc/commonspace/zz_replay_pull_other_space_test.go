package commonspace

// Witness for C13 / spacePullWithPeer ensures[pulled_space_is_requested_space]: a peer answers the pull
// of space X with the complete, valid payload of space Y; before the fix NewSpace(X) returned, without
// error, a space whose id is Y.
import (
	"context"
	"testing"

	"github.com/stretchr/testify/require"

	"github.com/anyproto/any-sync/commonspace/spacepayloads"
	"github.com/anyproto/any-sync/commonspace/spacestorage"
	"github.com/anyproto/any-sync/commonspace/spacesyncproto"
	"github.com/anyproto/any-sync/commonspace/syncstatus"
	"github.com/anyproto/any-sync/net/peer"
	"github.com/anyproto/any-sync/net/rpc/rpctest"
	"github.com/anyproto/any-sync/util/crypto"
)

type replayFixedServer struct {
	spacesyncproto.DRPCSpaceSyncUnimplementedServer
	payload spacestorage.SpaceStorageCreatePayload
}

func (s *replayFixedServer) SpacePull(ctx context.Context, req *spacesyncproto.SpacePullRequest) (*spacesyncproto.SpacePullResponse, error) {
	return &spacesyncproto.SpacePullResponse{
		Payload: &spacesyncproto.SpacePayload{
			SpaceHeader:            s.payload.SpaceHeaderWithId,
			AclPayloadId:           s.payload.AclWithId.Id,
			AclPayload:             s.payload.AclWithId.Payload,
			SpaceSettingsPayload:   s.payload.SpaceSettingsWithId.RawChange,
			SpaceSettingsPayloadId: s.payload.SpaceSettingsWithId.Id,
		},
	}, nil
}

func TestReplayC13PullAnswersWithOtherSpace(t *testing.T) {
	fxC := newSpacePullFixture(t)
	defer fxC.Finish(t)
	mk := func(rep uint64) spacestorage.SpaceStorageCreatePayload {
		sk, _, _ := crypto.GenerateRandomEd25519KeyPair()
		master, _, _ := crypto.GenerateRandomEd25519KeyPair()
		meta, _, _ := crypto.GenerateRandomEd25519KeyPair()
		out, err := spacepayloads.StoragePayloadForSpaceCreateV1(spacepayloads.SpaceCreatePayload{
			SigningKey: sk, MasterKey: master, MetadataKey: meta, ReadKey: crypto.NewAES(), SpaceType: "t", ReplicationKey: rep,
		})
		require.NoError(t, err)
		return out
	}
	wanted, served := mk(1), mk(2)
	evilTs := rpctest.NewTestServer()
	require.NoError(t, spacesyncproto.DRPCRegisterSpaceSync(evilTs, &replayFixedServer{payload: served}))
	mcS, mcC := rpctest.MultiConnPair("peer", "peerclient")
	pS, err := peer.NewPeer(mcS, fxC.ts)
	require.NoError(t, err)
	fxC.tp.AddPeer(ctx, pS)
	_, err = peer.NewPeer(mcC, evilTs)
	require.NoError(t, err)
	fxC.managerProvider.peer = pS

	wantedId := wanted.SpaceHeaderWithId.Id
	sp, err := fxC.spaceService.NewSpace(ctx, wantedId, Deps{
		SyncStatus:     syncstatus.NewNoOpSyncStatus(),
		TreeSyncer:     &mockTreeSyncer{},
		AccountService: fxC.account,
	})
	if err == nil {
		t.Fatalf("pull of space %s was answered with the (valid) payload of space %s and accepted: the stored space has id %s", wantedId, served.SpaceHeaderWithId.Id, sp.Id())
	}
}
