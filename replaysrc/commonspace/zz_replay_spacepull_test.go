package commonspace

// Replay for C11 / spacePullWithPeer.nil-deref: a peer answers SpacePull with a response whose
// Payload sub-message is absent; the client dereferences it.

import (
	"context"
	"testing"

	"github.com/anyproto/any-sync/commonspace/spacesyncproto"
	"github.com/anyproto/any-sync/commonspace/syncstatus"
	"github.com/anyproto/any-sync/net/peer"
	"github.com/anyproto/any-sync/net/rpc/rpctest"
)

type replayEmptyPullServer struct {
	spacesyncproto.DRPCSpaceSyncUnimplementedServer
}

func (*replayEmptyPullServer) SpacePull(ctx context.Context, req *spacesyncproto.SpacePullRequest) (*spacesyncproto.SpacePullResponse, error) {
	return &spacesyncproto.SpacePullResponse{}, nil
}

func TestReplayC11SpacePullEmptyPayload(t *testing.T) {
	fxC := newSpacePullFixture(t)
	defer fxC.Finish(t)
	evil := rpctest.NewTestServer()
	if err := spacesyncproto.DRPCRegisterSpaceSync(evil, &replayEmptyPullServer{}); err != nil {
		t.Skip(err)
	}
	mcS, mcC := rpctest.MultiConnPair("peer", "peerclient")
	pS, err := peer.NewPeer(mcS, fxC.ts)
	if err != nil {
		t.Skip(err)
	}
	fxC.tp.AddPeer(ctx, pS)
	if _, err = peer.NewPeer(mcC, evil); err != nil {
		t.Skip(err)
	}
	fxC.managerProvider.peer = pS
	defer func() {
		if r := recover(); r != nil {
			t.Fatalf("a SpacePull response without payload crashed the client: %v", r)
		}
	}()
	_, err = fxC.spaceService.NewSpace(ctx, "bafyspace.1a", Deps{
		SyncStatus:     syncstatus.NewNoOpSyncStatus(),
		TreeSyncer:     &mockTreeSyncer{},
		AccountService: fxC.account,
	})
	if err == nil {
		t.Fatalf("a space was created from an empty pull response")
	}
}
