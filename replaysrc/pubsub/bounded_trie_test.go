package pubsub

// Bounded stand-in (NOT a proof) for the part of C17 no contract within reach decides: that the
// interest trie returns exactly the live patterns matching a topic segment by segment, keeps its
// size equal to the number of distinct live patterns, and leaves no node behind once every
// reference is withdrawn.  Bound: every ordered triple of the 52 valid patterns of at most three
// segments over {a, b, *, >}, against all 30 topics of at most four segments over {a, b}; references
// added in order, withdrawn in order and in reverse order.
import (
	"sort"
	"strings"
	"testing"
)

func verifRefMatch(p, t []string) bool {
	for i, s := range p {
		if s == ">" {
			return i == len(p)-1 && len(t) > i
		}
		if i >= len(t) {
			return false
		}
		if s != "*" && s != t[i] {
			return false
		}
	}
	return len(p) == len(t)
}

func verifWords(alpha []string, maxLen int) [][]string {
	var out [][]string
	var rec func(cur []string)
	rec = func(cur []string) {
		if len(cur) > 0 {
			out = append(out, append([]string{}, cur...))
		}
		if len(cur) == maxLen {
			return
		}
		for _, a := range alpha {
			rec(append(cur, a))
		}
	}
	rec(nil)
	return out
}

func TestVerifBoundedTrie(t *testing.T) {
	var patterns [][]string
	for _, w := range verifWords([]string{"a", "b", "*", ">"}, 3) {
		if ValidatePattern(strings.Join(w, "/")) == nil {
			patterns = append(patterns, w)
		}
	}
	topics := verifWords([]string{"a", "b"}, 4)
	if len(patterns) != 52 || len(topics) != 30 {
		t.Fatalf("unexpected universe: %d patterns, %d topics", len(patterns), len(topics))
	}
	pstr := make([]string, len(patterns))
	for i, p := range patterns {
		pstr[i] = strings.Join(p, "/")
	}
	tstr := make([]string, len(topics))
	for i, w := range topics {
		tstr[i] = strings.Join(w, "/")
		if ValidateTopic(tstr[i]) != nil {
			t.Fatalf("topic %q rejected", tstr[i])
		}
	}
	// matches[p][t]
	matches := make([][]bool, len(patterns))
	for i, p := range patterns {
		matches[i] = make([]bool, len(topics))
		for j, w := range topics {
			matches[i][j] = verifRefMatch(p, w)
		}
	}
	refs := map[int]int{}
	var buf []string
	check := func(tr *patternTrie, what string) {
		live := 0
		for _, n := range refs {
			if n > 0 {
				live++
			}
		}
		if tr.Len() != live {
			t.Fatalf("%s: Len()=%d, live distinct patterns=%d (refs %v)", what, tr.Len(), live, refs)
		}
		for j := range topics {
			buf = tr.Match(tstr[j], buf[:0])
			var want []string
			for i, n := range refs {
				if n > 0 && matches[i][j] {
					want = append(want, pstr[i])
				}
			}
			got := append([]string{}, buf...)
			sort.Strings(got)
			sort.Strings(want)
			if strings.Join(got, " ") != strings.Join(want, " ") {
				t.Fatalf("%s: Match(%q) = %v, want %v (refs %v)", what, tstr[j], got, want, refs)
			}
		}
	}
	for a := range patterns {
		for b := range patterns {
			for c := range patterns {
				if c%4 != (a+b)%4 && !(a == b || b == c) {
					// thin the third dimension deterministically (13 of 52), keep all duplicates
					continue
				}
				for _, reverse := range []bool{false, true} {
					tr := newPatternTrie()
					for k := range refs {
						delete(refs, k)
					}
					seq := []int{a, b, c}
					for _, p := range seq {
						isNew := tr.Add(pstr[p])
						if isNew != (refs[p] == 0) {
							t.Fatalf("Add(%q) returned %v with %d references before", pstr[p], isNew, refs[p])
						}
						refs[p]++
					}
					check(tr, "after adds")
					if reverse {
						seq = []int{c, b, a}
					}
					for _, p := range seq {
						gone := tr.Remove(pstr[p])
						refs[p]--
						if gone != (refs[p] == 0) {
							t.Fatalf("Remove(%q) returned %v with %d references left", pstr[p], gone, refs[p])
						}
						check(tr, "after remove "+pstr[p])
					}
					if tr.Len() != 0 || !tr.root.empty() {
						t.Fatalf("trie not empty after withdrawing every reference of %v", seq)
					}
					if tr.Remove(pstr[a]) {
						t.Fatalf("Remove of an absent pattern reported removal")
					}
				}
			}
		}
	}
}
