package ldiff

import (
	"bytes"
	"fmt"
	"math/rand"
	"testing"
)

// Witnesses for C08 (found by failed obligations / the bounded comparison, reproduced through the
// public API): histories after which an index advertises a different hash than one freshly filled
// with the same contents.
func verifReplayHistory(t *testing.T, allowUpdate, allowRemove bool) {
	rnd := rand.New(rand.NewSource(3))
	for iter := 0; iter < 300; iter++ {
		df := 2 + rnd.Intn(3)
		th := 1 + rnd.Intn(2)
		inc := New(df, th).(*diff)
		contents := map[string]string{}
		for op := 0; op < 60; op++ {
			id := fmt.Sprintf("o%d", rnd.Intn(24))
			_, exists := contents[id]
			switch {
			case allowRemove && exists && rnd.Intn(2) == 0:
				delete(contents, id)
				_ = inc.RemoveId(id)
			case exists && !allowUpdate:
				continue
			default:
				head := fmt.Sprintf("h%d", op)
				contents[id] = head
				inc.Set(Element{Id: id, Head: head})
			}
			fresh := New(df, th).(*diff)
			var all []Element
			for id, h := range contents {
				all = append(all, Element{Id: id, Head: h})
			}
			fresh.Set(all...)
			if !bytes.Equal(inc.ranges.hash(), fresh.ranges.hash()) {
				t.Fatalf("df=%d th=%d after %d operations (last on %s): incremental index and fresh index with the same %d entries advertise different hashes", df, th, op+1, id, len(contents))
			}
		}
	}
}

// only inserts of new ids and updates of existing ids (no removal)
func TestReplayC08UpdateInflatesCounts(t *testing.T) { verifReplayHistory(t, true, false) }

// only inserts of new ids and removals (no update)
func TestReplayC08NestedMergeMissing(t *testing.T) { verifReplayHistory(t, false, true) }
