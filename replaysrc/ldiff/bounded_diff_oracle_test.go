package ldiff

// Bounded stand-in (NOT a proof) for the end-to-end exactness of the recursive diff (C07), which no
// contract within reach decides (it needs the container contract of the skip list and an induction
// over the range tree).  Bound: 30000 pseudo-random pairs of head indexes (fixed seed) with 1..40
// elements over a universe of 60 ids, heads from {a,b,c}, divide factors 2..8, thresholds 1..5, both
// diff variants, compared with the set-theoretic definition.
import (
	"context"
	"fmt"
	"math/rand"
	"sort"
	"testing"
)

func TestVerifBoundedDiffOracle(t *testing.T) {
	rnd := rand.New(rand.NewSource(20260922))
	heads := []string{"a", "b", "c"}
	for iter := 0; iter < 30000; iter++ {
		df := 2 + rnd.Intn(7)
		th := 1 + rnd.Intn(5)
		a, b := New(df, th), New(df, th)
		am, bm := map[string]string{}, map[string]string{}
		n := 1 + rnd.Intn(40)
		for i := 0; i < n; i++ {
			id := fmt.Sprintf("id%d", rnd.Intn(60))
			switch rnd.Intn(4) {
			case 0:
				am[id] = heads[rnd.Intn(3)]
			case 1:
				bm[id] = heads[rnd.Intn(3)]
			case 2:
				h := heads[rnd.Intn(3)]
				am[id], bm[id] = h, h
			default:
				am[id], bm[id] = heads[rnd.Intn(3)], heads[rnd.Intn(3)]
			}
		}
		for id, h := range am {
			a.Set(Element{Id: id, Head: h})
		}
		for id, h := range bm {
			b.Set(Element{Id: id, Head: h})
		}
		var wantNew, wantRem, wantChanged, wantOurs, wantTheirs []string
		for id, h := range bm {
			if mh, ok := am[id]; !ok {
				wantNew = append(wantNew, id)
			} else if mh != h {
				wantChanged = append(wantChanged, id)
				if h > mh {
					wantTheirs = append(wantTheirs, id)
				} else {
					wantOurs = append(wantOurs, id)
				}
			}
		}
		for id := range am {
			if _, ok := bm[id]; !ok {
				wantRem = append(wantRem, id)
			}
		}
		eq := func(what string, got, want []string) {
			sort.Strings(got)
			sort.Strings(want)
			if fmt.Sprint(got) != fmt.Sprint(want) {
				t.Fatalf("iter %d df=%d th=%d local=%v remote=%v: %s = %v, want %v", iter, df, th, am, bm, what, got, want)
			}
		}
		newIds, changed, removed, err := a.Diff(context.Background(), b)
		if err != nil {
			t.Fatal(err)
		}
		eq("Diff.new", newIds, wantNew)
		eq("Diff.changed", changed, wantChanged)
		eq("Diff.removed", removed, wantRem)
		newIds, ours, theirs, removed, err := a.(interface {
			CompareDiff(ctx context.Context, dl Remote) (newIds, ourChangedIds, theirChangedIds, removedIds []string, err error)
		}).CompareDiff(context.Background(), b)
		if err != nil {
			t.Fatal(err)
		}
		eq("CompareDiff.new", newIds, wantNew)
		eq("CompareDiff.ours", ours, wantOurs)
		eq("CompareDiff.theirs", theirs, wantTheirs)
		eq("CompareDiff.removed", removed, wantRem)
	}
}
