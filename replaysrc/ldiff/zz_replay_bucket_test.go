package ldiff

// Replay for C07 / getBottomRange.ensures[bucket_range]: an element whose hash falls into the
// remainder ("align") part of the last sub-range is mapped to a non-existent bucket.
// The id is an 8-byte preimage of the wanted xxhash64 value (xxhash64 is a bijection on 8-byte inputs).

import (
	"encoding/binary"
	"math/bits"
	"testing"

	"github.com/cespare/xxhash"
)

const (
	xp1 uint64 = 11400714785074694791
	xp2 uint64 = 14029467366897019727
	xp3 uint64 = 1609587929392839161
	xp4 uint64 = 9650029242287828579
	xp5 uint64 = 2870177450012600261
)

func modInv(a uint64) uint64 { // inverse of odd a modulo 2^64 (Newton)
	x := a
	for i := 0; i < 6; i++ {
		x *= 2 - a*x
	}
	return x
}

func unxorshift(h uint64, s uint) uint64 {
	r := h
	for i := 0; i < 64/int(s)+1; i++ {
		r = h ^ (r >> s)
	}
	return r
}

// XXPreimage8 returns the 8-byte string whose xxhash64 (seed 0) equals target.
func XXPreimage8(target uint64) string {
	h := unxorshift(target, 32)
	h *= modInv(xp3)
	h = unxorshift(h, 29)
	h *= modInv(xp2)
	h = unxorshift(h, 33)
	// h = rotl(h0 ^ k1, 27)*P1 + P4
	h -= xp4
	h *= modInv(xp1)
	h = bits.RotateLeft64(h, -27)
	k1 := h ^ (xp5 + 8)
	// k1 = rotl(u*P2, 31)*P1
	k1 *= modInv(xp1)
	k1 = bits.RotateLeft64(k1, -31)
	u := k1 * modInv(xp2)
	var b [8]byte
	binary.LittleEndian.PutUint64(b[:], u)
	return string(b[:])
}

func TestReplayC07BucketOverflow(t *testing.T) {
	id := XXPreimage8(^uint64(0))
	if xxhash.Sum64([]byte(id)) != ^uint64(0) {
		t.Skip("preimage construction failed - replay not applicable")
	}
	defer func() {
		if r := recover(); r != nil {
			t.Fatalf("Set panicked for an id hashing to MaxUint64 with divideFactor=3: %v", r)
		}
	}()
	d := New(3, 1)
	d.Set(Element{Id: id, Head: "h"})
	if d.Len() != 1 {
		t.Fatalf("element not stored")
	}
}
