package ldiff

// Bounded stand-in (NOT a proof) for C08 end to end: the advertised hash and every range answer depend
// only on the contents.  Bound: 400 (quick) / 4000 (thorough) pseudo-random histories (fixed seed) of up to 120 operations
// (Set new id, Set existing id with a new head, multi-element Set, RemoveId) over 48 ids, divide
// factors 2..6, thresholds 1..4; after every operation the index is compared with one freshly filled
// with the same contents in a single call: top hash, and the answer to every tracked range of either.
import (
	"bytes"
	"context"
	"fmt"
	"math/rand"
	"os"
	"testing"
)

func verifSameAnswers(t *testing.T, what string, a, b *diff) {
	if !bytes.Equal(a.ranges.hash(), b.ranges.hash()) {
		t.Fatalf("%s: top hash differs for equal contents", what)
	}
	var rs []Range
	for tup := range a.ranges.ranges {
		rs = append(rs, Range{From: tup.from, To: tup.to})
	}
	for tup := range b.ranges.ranges {
		rs = append(rs, Range{From: tup.from, To: tup.to})
	}
	ra, _ := a.Ranges(context.Background(), rs, nil)
	rb, _ := b.Ranges(context.Background(), rs, nil)
	for i := range rs {
		if !bytes.Equal(ra[i].Hash, rb[i].Hash) || ra[i].Count != rb[i].Count || len(ra[i].Elements) != len(rb[i].Elements) {
			t.Fatalf("%s: range [%d,%d] answered differently for equal contents: hash %x/%x count %d/%d elements %d/%d", what, rs[i].From, rs[i].To, ra[i].Hash, rb[i].Hash, ra[i].Count, rb[i].Count, len(ra[i].Elements), len(rb[i].Elements))
		}
	}
}

func TestVerifBoundedHistoryIndependence(t *testing.T) {
	rnd := rand.New(rand.NewSource(8))
	iters := 400 // quick tier; VERIF_TIER=thorough runs the full 4000
	if os.Getenv("VERIF_TIER") == "thorough" {
		iters = 4000
	}
	for iter := 0; iter < iters; iter++ {
		df := 2 + rnd.Intn(5)
		th := 1 + rnd.Intn(4)
		inc := New(df, th).(*diff)
		contents := map[string]string{}
		nops := 1 + rnd.Intn(120)
		for op := 0; op < nops; op++ {
			var desc string
			switch rnd.Intn(4) {
			case 0, 1:
				id := fmt.Sprintf("o%d", rnd.Intn(48))
				head := fmt.Sprintf("h%d", rnd.Intn(5))
				contents[id] = head
				inc.Set(Element{Id: id, Head: head})
				desc = "Set " + id
			case 2:
				var els []Element
				for k := 0; k < 1+rnd.Intn(6); k++ {
					id := fmt.Sprintf("o%d", rnd.Intn(48))
					head := fmt.Sprintf("h%d", rnd.Intn(5))
					contents[id] = head
					els = append(els, Element{Id: id, Head: head})
				}
				inc.Set(els...)
				desc = fmt.Sprintf("Set x%d", len(els))
			default:
				id := fmt.Sprintf("o%d", rnd.Intn(48))
				delete(contents, id)
				_ = inc.RemoveId(id)
				desc = "RemoveId " + id
			}
			fresh := New(df, th).(*diff)
			var all []Element
			for id, h := range contents {
				all = append(all, Element{Id: id, Head: h})
			}
			fresh.Set(all...)
			verifSameAnswers(t, fmt.Sprintf("iter %d df=%d th=%d after op %d (%s), %d elements", iter, df, th, op, desc, len(contents)), inc, fresh)
		}
	}
}
