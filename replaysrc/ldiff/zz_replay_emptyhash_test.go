package ldiff

import (
	"context"
	"sort"
	"testing"
)

// Witness for C07 / compareResults ensures[skip_only_when_proved_equal]: an empty hash is the answer
// both for an empty tracked range and for a range the answering side does not track (elements listed
// instead). Treating two empty hashes as "equal" skipped a range holding a local-only id, so Diff did
// not report it as removed (found by a failed obligation, reproduced through the public API).
func TestReplayC07EmptyHashSkipsRange(t *testing.T) {
	local := New(7, 2)
	remote := New(7, 2)
	for _, id := range []string{"id10", "id20", "id24", "id30", "id35", "id46", "id47", "id53", "id54", "id56", "id59", "id6"} {
		local.Set(Element{Id: id, Head: "h"})
	}
	for _, id := range []string{"id10", "id13", "id21", "id29", "id3", "id33", "id35", "id4", "id45", "id47", "id53", "id54", "id56", "id59", "id7", "id8", "id9"} {
		remote.Set(Element{Id: id, Head: "h"})
	}
	_, _, removed, err := local.Diff(context.Background(), remote)
	if err != nil {
		t.Fatal(err)
	}
	sort.Strings(removed)
	want := []string{"id20", "id24", "id30", "id46", "id6"}
	if len(removed) != len(want) {
		t.Fatalf("removed = %v, want %v (a local-only id was skipped)", removed, want)
	}
	for i := range want {
		if removed[i] != want[i] {
			t.Fatalf("removed = %v, want %v", removed, want)
		}
	}
}
