package list

// Replay for C10 / ACL (*storage).AddAll.ensures[err_implies_not_committed]: a failed head update
// was returned to the caller but the deferred closure (which looked at a local err) committed the
// transaction anyway, leaving the records stored without the head pointing at them.

import (
	"context"
	"errors"
	"path/filepath"
	"testing"

	anystore "github.com/anyproto/any-store"

	"github.com/anyproto/any-sync/commonspace/headsync/headstorage"
	"github.com/anyproto/any-sync/consensus/consensusproto"
)

type replayFailingHeads struct{ headstorage.HeadStorage }

var errReplayHeads = errors.New("injected head update failure")

func (h replayFailingHeads) UpdateEntry(ctx context.Context, update headstorage.HeadsUpdate) error {
	return errReplayHeads
}

func TestReplayC10AclAddAllCommitsAfterFailedHeadUpdate(t *testing.T) {
	ctx := context.Background()
	db, err := anystore.Open(ctx, filepath.Join(t.TempDir(), "replay.db"), nil)
	if err != nil {
		t.Skip(err)
	}
	defer db.Close()
	hs, err := headstorage.New(ctx, db)
	if err != nil {
		t.Skip(err)
	}
	st, err := CreateStorage(ctx, &consensusproto.RawRecordWithId{Payload: []byte("root"), Id: "rootId"}, hs, db)
	if err != nil {
		t.Skip(err)
	}
	s := st.(*storage)
	s.headStorage = replayFailingHeads{hs}
	err = s.AddAll(ctx, []StorageRecord{{RawRecord: []byte("r1"), PrevId: "rootId", Id: "rec1", Order: 2, ChangeSize: 2}})
	if err == nil {
		t.Fatalf("AddAll returned nil although the head update failed")
	}
	has, herr := s.Has(ctx, "rec1")
	if herr != nil {
		t.Skip(herr)
	}
	if has {
		t.Fatalf("AddAll failed (%v) but the record was committed: stored records and recorded head disagree", err)
	}
}
