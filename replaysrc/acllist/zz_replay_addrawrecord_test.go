package list

// Replay for C10 / (*aclList).AddRawRecord.ensures[err_keeps_state]: the in-memory state is swapped
// before the record is persisted; when storage fails the list is ahead of storage and the same
// record can never be added again ("already exists").

import (
	"context"
	"errors"
	"testing"

	"github.com/anyproto/any-sync/commonspace/object/acl/list/listtest"
)

type replayFailOnceStorage struct {
	Storage
	fail bool
}

var errReplayStorage = errors.New("injected storage failure")

func (s *replayFailOnceStorage) AddAll(ctx context.Context, records []StorageRecord) error {
	if s.fail {
		s.fail = false
		return errReplayStorage
	}
	return s.Storage.AddAll(ctx, records)
}

func TestReplayC10AddRawRecordStorageFailure(t *testing.T) {
	a := NewAclExecutor("spaceId")
	if err := a.Execute("a.init::a"); err != nil {
		t.Skip(err)
	}
	acl := a.actualAccounts["a"].Acl.(*aclList)
	headBefore := acl.Head().Id
	res, err := acl.RecordBuilder().BuildInvite()
	if err != nil {
		t.Skip(err)
	}
	rec := listtest.WrapAclRecord(res.InviteRec)
	acl.storage = &replayFailOnceStorage{Storage: acl.storage, fail: true}
	err = acl.AddRawRecord(rec)
	if err == nil {
		t.Skip("storage failure was not injected")
	}
	if acl.Head().Id != headBefore {
		t.Fatalf("AddRawRecord failed (%v) but the in-memory head moved from %s to %s", err, headBefore, acl.Head().Id)
	}
	if err = acl.AddRawRecord(rec); err != nil {
		t.Fatalf("the same record is not accepted again after the failed write: %v", err)
	}
}
