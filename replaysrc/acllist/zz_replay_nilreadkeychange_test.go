package list

// Replay for C11 / ValidateAccountRemove -> validateReadKeyChange(nil): an AclAccountRemove whose
// ReadKeyChange sub-message is absent (a singular sub-message may be missing on the wire) makes
// the validator / applyReadKeyChange dereference nil.

import (
	"testing"

	"github.com/anyproto/any-sync/commonspace/object/acl/aclrecordproto"
)

func TestReplayC11AccountRemoveWithoutReadKeyChange(t *testing.T) {
	a := NewAclExecutor("spaceId")
	for _, cmd := range []string{"a.init::a", "a.invite::invId", "b.join::invId", "a.approve::b,rw"} {
		if err := a.Execute(cmd); err != nil {
			t.Skipf("setup %q: %v", cmd, err)
		}
	}
	acl := a.actualAccounts["a"].Acl.(*aclList)
	bKey, err := a.actualAccounts["b"].Keys.SignKey.GetPublic().Marshall()
	if err != nil {
		t.Skip(err)
	}
	content := &aclrecordproto.AclContentValue{Value: &aclrecordproto.AclContentValue_AccountRemove{
		AccountRemove: &aclrecordproto.AclAccountRemove{Identities: [][]byte{bKey}}, // no ReadKeyChange
	}}
	defer func() {
		if r := recover(); r != nil {
			t.Fatalf("an AccountRemove record without a ReadKeyChange crashed validation instead of being rejected: %v", r)
		}
	}()
	// buildRecords runs the same full validation a consensus node / preflight applies
	_, _ = acl.RecordBuilder().(*aclRecordBuilder).buildRecords([]*aclrecordproto.AclContentValue{content})
}
