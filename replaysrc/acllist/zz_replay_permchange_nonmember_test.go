package list

// Replay for C05 / ValidatePermissionChange.ensures[target_holds_a_permission]: a permission change
// addressed to an account that holds no permission (soft-removed by an earlier change to None, or
// removed) is accepted; it delivers no read key, so after a rotation in between the account holds a
// permission but cannot derive the current read key from the log.

import "testing"

func TestReplayC05PermissionForAccountWithoutKey(t *testing.T) {
	a := NewAclExecutor("spaceId")
	for _, cmd := range []string{
		"a.init::a",
		"a.invite::inv",
		"b.join::inv",
		"a.approve::b,r",
		"c.join::inv",
		"a.approve::c,r",
		"a.changes::b,none",
		"a.remove::c",
	} {
		if err := a.Execute(cmd); err != nil {
			t.Skipf("setup command %q failed: %v", cmd, err)
		}
	}
	if err := a.Execute("a.changes::b,r"); err != nil {
		return // the re-permission of an account without permissions was refused
	}
	b := a.ActualAccounts()["b"].Acl.AclState()
	if b.Permissions(b.Identity()).NoPermissions() {
		t.Skip("setup: b holds no permission")
	}
	key, err := b.CurrentReadKey()
	if err != nil || key == nil {
		t.Fatalf("account b holds permission %v in its own view of the log but cannot derive the current read key (key=%v err=%v)", b.Permissions(b.Identity()), key, err)
	}
}
