package list

// Replay for C04 / ValidateOwnershipChange.ensures[new_owner_not_guest]: the owner names a guest
// account as the new owner and a fully validating ACL accepts the record - a guest is
// re-permissioned (straight to Owner), which no route may do ("guests are never re-permissioned";
// ValidatePermissionChange says the same in its comments: a guest can only be removed).

import "testing"

func TestReplayC04OwnershipTransferToGuest(t *testing.T) {
	a := NewAclExecutor("spaceId")
	for _, cmd := range []string{
		"a.init::a",
		"a.add::guest,g,guestm",
	} {
		if err := a.Execute(cmd); err != nil {
			t.Skipf("setup command %q failed: %v", cmd, err)
		}
	}
	guestKey := a.actualAccounts["guest"].Keys.SignKey.GetPublic()
	ownerAcl := a.actualAccounts["a"].Acl
	if ownerAcl.AclState().Permissions(guestKey) != AclPermissionsGuest {
		t.Skip("setup: guest is not a guest")
	}
	err := a.Execute("a.ownership_change::guest,adm")
	if err == nil && ownerAcl.AclState().Permissions(guestKey) != AclPermissionsGuest {
		t.Fatalf("a guest was re-permissioned to %v by an ownership transfer (record accepted by a fully validating ACL)", ownerAcl.AclState().Permissions(guestKey))
	}
}
