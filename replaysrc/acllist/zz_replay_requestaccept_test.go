package list

// Replay for C04 / ValidateRequestAccept.ensures[join_request_only] and [target_is_outsider]:
// a non-owner admin "accepts" the *removal* request of another admin and thereby re-permissions
// (revokes) an Admin - something only the owner may do by any route.

import (
	"testing"

	"github.com/anyproto/any-sync/commonspace/object/acl/list/listtest"
)

func TestReplayC04AcceptOfRemoveRequestRevokesAdmin(t *testing.T) {
	a := NewAclExecutor("spaceId")
	for _, cmd := range []string{
		"a.init::a",
		"a.invite::invId",
		"b.join::invId",
		"a.approve::b,adm",
		"c.join::invId",
		"a.approve::c,adm",
		"b.request_remove::b",
	} {
		if err := a.Execute(cmd); err != nil {
			t.Skipf("setup command %q failed: %v", cmd, err)
		}
	}
	bKey := a.actualAccounts["b"].Keys.SignKey.GetPublic()
	cAcl := a.actualAccounts["c"].Acl
	st := cAcl.AclState()
	if st.Permissions(bKey) != AclPermissionsAdmin {
		t.Skipf("setup: b is not admin")
	}
	var reqId string
	for id, rec := range st.requestRecords {
		if rec.Type == RequestTypeRemove && rec.RequestIdentity.Equals(bKey) {
			reqId = id
		}
	}
	if reqId == "" {
		t.Skip("setup: no remove request of b")
	}
	// c is an admin but not the owner
	res, err := cAcl.RecordBuilder().BuildRequestAccept(RequestAcceptPayload{RequestRecordId: reqId, Permissions: AclPermissionsReader})
	if err != nil {
		return // the builder refused: nothing to replay
	}
	err = cAcl.AddRawRecord(listtest.WrapAclRecord(res))
	if err == nil && cAcl.AclState().Permissions(bKey) != AclPermissionsAdmin {
		t.Fatalf("a non-owner admin changed an Admin's permissions to %v by accepting its removal request (record accepted by a fully validating ACL)", cAcl.AclState().Permissions(bKey))
	}
}
