package objecttree

// Replay for C10 / (*storageDeferredCreation).createStorageAndDoInTx.ensures[err_keeps_uncreated]:
// the inner storage object is installed before the creating transaction commits and is kept when
// that transaction fails; the retry then writes changes for a tree whose root was never stored.

import (
	"context"
	"errors"
	"path/filepath"
	"sync/atomic"
	"testing"

	anystore "github.com/anyproto/any-store"

	"github.com/anyproto/any-sync/commonspace/headsync/headstorage"
	"github.com/anyproto/any-sync/commonspace/object/tree/treechangeproto"
	"github.com/anyproto/any-sync/util/crypto"
)

var errReplayDeferred = errors.New("injected failure")

// fails the n-th UpdateEntry once
type replayFailNthHeads struct {
	headstorage.HeadStorage
	n *int
}

func (h replayFailNthHeads) UpdateEntry(ctx context.Context, update headstorage.HeadsUpdate) error {
	*h.n--
	if *h.n == 0 {
		return errReplayDeferred
	}
	return h.HeadStorage.UpdateEntry(ctx, update)
}

type replayFailOnceCommitDB struct {
	anystore.DB
	fail *bool
}

type replayFailOnceCommitTx struct {
	anystore.WriteTx
	fail *bool
}

func (t replayFailOnceCommitTx) Commit() error {
	if *t.fail {
		*t.fail = false
		_ = t.WriteTx.Rollback()
		return errReplayDeferred
	}
	return t.WriteTx.Commit()
}

func (d replayFailOnceCommitDB) WriteTx(ctx context.Context) (anystore.WriteTx, error) {
	tx, err := d.DB.WriteTx(ctx)
	if err != nil {
		return nil, err
	}
	return replayFailOnceCommitTx{tx, d.fail}, nil
}

func TestReplayC10DeferredCreationKeepsUncommittedStorage(t *testing.T) {
	StorageChangeBuilder = func(keys crypto.KeyStorage, rootChange *treechangeproto.RawTreeChangeWithId) ChangeBuilder {
		return &nonVerifiableChangeBuilder{ChangeBuilder: NewChangeBuilder(newMockKeyStorage(), rootChange)}
	}
	ctx := context.Background()
	db, err := anystore.Open(ctx, filepath.Join(t.TempDir(), "replay.db"), nil)
	if err != nil {
		t.Skip(err)
	}
	defer db.Close()
	hs, err := headstorage.New(ctx, db)
	if err != nil {
		t.Skip(err)
	}
	creator := NewMockChangeCreator(nil)
	root := creator.CreateRoot("tree1", "aclHead")
	// make sure the changes collection exists already (as in a real space), then fail the head
	// update of the first AddAll (the second UpdateEntry: the first one belongs to the creation)
	if _, err = db.Collection(ctx, CollName); err != nil {
		t.Skip(err)
	}
	n := 2
	st, err := CreateStorageWithDeferredCreation(ctx, root, replayFailNthHeads{hs, &n}, db)
	if err != nil {
		t.Skip(err)
	}
	d := st.(*storageDeferredCreation)
	d.SetAddSeq(&atomic.Uint64{})
	ch := StorageChange{RawChange: []byte("x"), Id: "c1", PrevIds: []string{"tree1"}, SnapshotId: "tree1", OrderId: lexId.Next(d.root.OrderId), ChangeSize: 1}
	if err = d.AddAll(ctx, []StorageChange{ch}, []string{"c1"}, "tree1"); err == nil {
		t.Skip("commit failure was not injected")
	}
	firstErr := err
	// the same input again must be accepted and leave a tree whose root is stored
	if err = d.AddAll(ctx, []StorageChange{ch}, []string{"c1"}, "tree1"); err != nil {
		t.Fatalf("after the failed creating transaction (%v) the same input is rejected: %v", firstErr, err)
	}
	coll, err := db.Collection(ctx, CollName)
	if err != nil {
		t.Skip(err)
	}
	if _, err = coll.FindId(ctx, "tree1"); err != nil {
		t.Fatalf("after the failed creating transaction (%v) the retry stored change c1 and heads, but the root of the tree is not stored: %v", firstErr, err)
	}
}
