package objecttree

// Replay for C10 / (*storage).AddAll.ensures[ok_implies_committed]: the commit error of the write
// transaction is assigned to a local variable inside the deferred closure and never reaches the
// caller, so AddAll reports success although nothing was stored.

import (
	"context"
	"errors"
	"path/filepath"
	"sync/atomic"
	"testing"

	anystore "github.com/anyproto/any-store"

	"github.com/anyproto/any-sync/commonspace/headsync/headstorage"
	"github.com/anyproto/any-sync/commonspace/object/tree/treechangeproto"
	"github.com/anyproto/any-sync/util/crypto"
)

type replayFailingCommitTx struct{ anystore.WriteTx }

var errReplayCommit = errors.New("injected commit failure")

func (t replayFailingCommitTx) Commit() error {
	_ = t.WriteTx.Rollback()
	return errReplayCommit
}

type replayFailingCommitDB struct{ anystore.DB }

func (d replayFailingCommitDB) WriteTx(ctx context.Context) (anystore.WriteTx, error) {
	tx, err := d.DB.WriteTx(ctx)
	if err != nil {
		return nil, err
	}
	return replayFailingCommitTx{tx}, nil
}

func TestReplayC10CommitErrorSwallowed(t *testing.T) {
	StorageChangeBuilder = func(keys crypto.KeyStorage, rootChange *treechangeproto.RawTreeChangeWithId) ChangeBuilder {
		return &nonVerifiableChangeBuilder{ChangeBuilder: NewChangeBuilder(newMockKeyStorage(), rootChange)}
	}
	ctx := context.Background()
	db, err := anystore.Open(ctx, filepath.Join(t.TempDir(), "replay.db"), nil)
	if err != nil {
		t.Skip(err)
	}
	defer db.Close()
	hs, err := headstorage.New(ctx, db)
	if err != nil {
		t.Skip(err)
	}
	creator := NewMockChangeCreator(nil)
	root := creator.CreateRoot("tree1", "aclHead")
	st, err := CreateStorage(ctx, root, hs, db)
	if err != nil {
		t.Skip(err)
	}
	s := st.(*storage)
	s.store = replayFailingCommitDB{db}
	s.SetAddSeq(&atomic.Uint64{})
	ch := StorageChange{RawChange: []byte("x"), Id: "c1", PrevIds: []string{"tree1"}, SnapshotId: "tree1", OrderId: lexId.Next(s.root.OrderId), ChangeSize: 1}
	err = s.AddAll(ctx, []StorageChange{ch}, []string{"c1"}, "tree1")
	has, herr := s.Has(ctx, "c1")
	if herr != nil {
		t.Skip(herr)
	}
	if err == nil && !has {
		t.Fatalf("AddAll returned nil although the transaction commit failed and the change is not stored")
	}
}
