package objecttree

// Replay for C10 / (*objectTree).Delete.ensures[failed_delete_keeps_tree_live]: the live tree is
// marked deleted before the storage delete runs; when the storage delete fails the error is returned
// but the live object already answers ErrDeleted while storage still holds the whole tree, and
// deleting again reports success without deleting anything.

import (
	"context"
	"errors"
	"testing"

	"github.com/anyproto/any-sync/commonspace/headsync/headstorage"
	"github.com/anyproto/any-sync/commonspace/object/acl/list"
)

type replayFailOnceDeleteStorage struct {
	Storage
	fail bool
}

func (s *replayFailOnceDeleteStorage) Delete(ctx context.Context) error {
	if s.fail {
		s.fail = false
		return errors.New("injected storage failure")
	}
	return s.Storage.Delete(ctx)
}

func TestReplayC10FailedDeleteThenRetry(t *testing.T) {
	storeA := createNamedStore(ctx, t, "a")
	exec := list.NewAclExecutor("spaceId")
	if err := exec.Execute("a.init::a"); err != nil {
		t.Skip(err)
	}
	aAccount := exec.ActualAccounts()["a"]
	root, err := CreateObjectTreeRoot(ObjectTreeCreatePayload{
		PrivKey:     aAccount.Keys.SignKey,
		ChangeType:  "changeType",
		SpaceId:     "spaceId",
		IsEncrypted: true,
	}, aAccount.Acl)
	if err != nil {
		t.Skip(err)
	}
	hs, err := headstorage.New(ctx, storeA)
	if err != nil {
		t.Skip(err)
	}
	st, err := CreateStorage(ctx, root, hs, storeA)
	if err != nil {
		t.Skip(err)
	}
	initTestAddSeq(st)
	failing := &replayFailOnceDeleteStorage{Storage: st, fail: true}
	tr, err := BuildKeyFilterableObjectTree(failing, aAccount.Acl)
	if err != nil {
		t.Skip(err)
	}
	if err = tr.Delete(); err == nil {
		t.Skip("storage failure was not injected")
	}
	if has, herr := st.Has(ctx, root.Id); herr != nil || !has {
		t.Skip("setup: the failed delete removed the root")
	}
	if _, gerr := tr.GetChange(root.Id); errors.Is(gerr, ErrDeleted) {
		t.Errorf("Delete failed (%v) and storage still holds the tree, but the live tree answers %v", err, gerr)
	}
	if err = tr.Delete(); err != nil {
		t.Skip(err)
	}
	if has, herr := st.Has(ctx, root.Id); herr == nil && has {
		t.Fatalf("retrying Delete after a failed storage delete reported success, but the tree is still stored")
	}
}
