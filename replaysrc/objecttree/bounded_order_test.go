package objecttree

// Bounded stand-in (NOT a proof) for the relational part of C06: the presented order depends only on
// the set of changes.  Bound: 300 pseudo-random DAGs (fixed seed) of 2..7 changes over a root (1..2
// parents each, random ids), for each DAG 60 causally closed arrival orders, each delivered one change at a time
// and in random batches; checked: final iteration order and heads equal those of the tree built in one
// call; order ids strictly increase along the order; an addition reported as Append leaves the
// previously presented sequence as a prefix of the new one; order ids handed out are never changed.
import (
	"fmt"
	"math/rand"
	"strings"
	"testing"
)

func verifOrder(tr *Tree) (ids []string, orderIds []string) {
	tr.iterate(tr.root, func(c *Change) bool {
		ids = append(ids, c.Id)
		orderIds = append(orderIds, c.OrderId)
		return true
	})
	return
}

func TestVerifBoundedOrderIsFunctionOfSet(t *testing.T) {
	rnd := rand.New(rand.NewSource(6))
	for dag := 0; dag < 300; dag++ {
		n := 2 + rnd.Intn(6)
		type spec struct {
			id    string
			prevs []string
		}
		specs := []spec{}
		names := []string{"root"}
		for i := 0; i < n; i++ {
			id := fmt.Sprintf("%c%d", 'a'+rune(rnd.Intn(26)), i)
			var prevs []string
			p1 := names[rnd.Intn(len(names))]
			prevs = append(prevs, p1)
			if rnd.Intn(3) == 0 && len(names) > 1 {
				p2 := names[rnd.Intn(len(names))]
				if p2 != p1 {
					prevs = append(prevs, p2)
				}
			}
			specs = append(specs, spec{id, prevs})
			names = append(names, id)
		}
		mk := func(s spec) *Change { return newChange(s.id, "root", append([]string{}, s.prevs...)...) }
		ref := new(Tree)
		all := []*Change{newSnapshot("root", "")}
		for _, s := range specs {
			all = append(all, mk(s))
		}
		ref.Add(all...)
		refIds, refOrd := verifOrder(ref)
		for i := 1; i < len(refOrd); i++ {
			if !(refOrd[i-1] < refOrd[i]) {
				t.Fatalf("dag %d: order ids not increasing in the reference build: %v %v", dag, refIds, refOrd)
			}
		}
		refHeads := strings.Join(ref.Heads(), ",")
		for perm := 0; perm < 60; perm++ {
			// a random causally closed arrival order (a change never arrives before its parents'
			// batch: the tree discards changes whose parents are unknown at the end of an Add)
			var order []int
			have := map[string]bool{"root": true}
			for len(order) < len(specs) {
				var avail []int
				for i, s := range specs {
					if have[s.id] {
						continue
					}
					ok := true
					for _, p := range s.prevs {
						if !have[p] {
							ok = false
						}
					}
					if ok {
						avail = append(avail, i)
					}
				}
				pick := avail[rnd.Intn(len(avail))]
				order = append(order, pick)
				have[specs[pick].id] = true
			}
			tr := new(Tree)
			tr.Add(newSnapshot("root", ""))
			given := map[string]string{"root": tr.root.OrderId}
			prevIds, _ := verifOrder(tr)
			for at := 0; at < len(order); {
				k := 1
				if perm%2 == 1 {
					k = 1 + rnd.Intn(3)
				}
				var batch []*Change
				for j := 0; j < k && at < len(order); j++ {
					batch = append(batch, mk(specs[order[at]]))
					at++
				}
				rnd.Shuffle(len(batch), func(a, b int) { batch[a], batch[b] = batch[b], batch[a] })
				mode, _ := tr.Add(batch...)
				ids, ords := verifOrder(tr)
				if mode == Append {
					if len(ids) < len(prevIds) || strings.Join(ids[:len(prevIds)], ",") != strings.Join(prevIds, ",") {
						t.Fatalf("dag %d perm %d: Append reported but the presented sequence %v is not a prefix of %v", dag, perm, prevIds, ids)
					}
				}
				for i, id := range ids {
					if old, ok := given[id]; ok && old != ords[i] {
						t.Fatalf("dag %d perm %d: order id of %s renumbered from %q to %q", dag, perm, id, old, ords[i])
					}
					given[id] = ords[i]
				}
				prevIds = ids
			}
			ids, ords := verifOrder(tr)
			if strings.Join(ids, ",") != strings.Join(refIds, ",") {
				t.Fatalf("dag %d perm %d (arrival %v): order %v differs from the order of the same set built at once %v", dag, perm, order, ids, refIds)
			}
			for i := 1; i < len(ords); i++ {
				if !(ords[i-1] < ords[i]) {
					t.Fatalf("dag %d perm %d: order ids not increasing along the order: %v %v", dag, perm, ids, ords)
				}
			}
			if h := strings.Join(tr.Heads(), ","); h != refHeads {
				t.Fatalf("dag %d perm %d: heads %s differ from %s", dag, perm, h, refHeads)
			}
		}
	}
}
