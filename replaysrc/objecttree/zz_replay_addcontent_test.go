package objecttree

// Replay for C10 / (*objectTree).AddContentWithValidator.ensures[err_keeps_heads]: the new change is
// attached to the in-memory tree before it is persisted; when storage.AddAll fails the error is
// returned but the live tree keeps the unstored change as its head.

import (
	"context"
	"errors"
	"testing"

	"github.com/anyproto/any-sync/commonspace/headsync/headstorage"
	"github.com/anyproto/any-sync/commonspace/object/acl/list"
)

type replayFailOnceTreeStorage struct {
	Storage
	fail bool
}

var errReplayTreeStorage = errors.New("injected storage failure")

func (s *replayFailOnceTreeStorage) AddAll(ctx context.Context, changes []StorageChange, heads []string, commonSnapshot string) error {
	if s.fail {
		s.fail = false
		return errReplayTreeStorage
	}
	return s.Storage.AddAll(ctx, changes, heads, commonSnapshot)
}

func TestReplayC10AddContentStorageFailure(t *testing.T) {
	storeA := createNamedStore(ctx, t, "a")
	exec := list.NewAclExecutor("spaceId")
	if err := exec.Execute("a.init::a"); err != nil {
		t.Skip(err)
	}
	aAccount := exec.ActualAccounts()["a"]
	root, err := CreateObjectTreeRoot(ObjectTreeCreatePayload{
		PrivKey:     aAccount.Keys.SignKey,
		ChangeType:  "changeType",
		SpaceId:     "spaceId",
		IsEncrypted: true,
	}, aAccount.Acl)
	if err != nil {
		t.Skip(err)
	}
	hs, err := headstorage.New(ctx, storeA)
	if err != nil {
		t.Skip(err)
	}
	st, err := CreateStorage(ctx, root, hs, storeA)
	if err != nil {
		t.Skip(err)
	}
	initTestAddSeq(st)
	failing := &replayFailOnceTreeStorage{Storage: st, fail: true}
	tr, err := BuildKeyFilterableObjectTree(failing, aAccount.Acl)
	if err != nil {
		t.Skip(err)
	}
	headsBefore := append([]string{}, tr.Heads()...)
	_, err = tr.AddContent(ctx, SignableChangeContent{Data: []byte("some"), Key: aAccount.Keys.SignKey, ShouldBeEncrypted: true, DataType: mockDataType})
	if err == nil {
		t.Skip("storage failure was not injected")
	}
	stored, herr := st.Heads(ctx)
	if herr != nil {
		t.Skip(herr)
	}
	if len(tr.Heads()) != len(headsBefore) || tr.Heads()[0] != headsBefore[0] {
		t.Fatalf("AddContent failed (%v) but the live tree's heads moved from %v to %v while storage still has %v", err, headsBefore, tr.Heads(), stored)
	}
}
