package keyvalue

// Replays for C12 (key-value store): values delivered on the remote path (SetRaw).

import (
	"testing"

	"github.com/anyproto/any-sync/commonspace/object/accountdata"
	"github.com/anyproto/any-sync/commonspace/object/keyvalue/keyvaluestorage/innerstorage"
	"github.com/anyproto/any-sync/commonspace/spacesyncproto"
)

func replaySignedValue(t *testing.T, keys *accountdata.AccountKeys, aclHead, key string, ts int64, body string) *spacesyncproto.StoreKeyValue {
	peerPub, err := keys.PeerKey.GetPublic().Marshall()
	if err != nil {
		t.Skip(err)
	}
	idPub, err := keys.SignKey.GetPublic().Marshall()
	if err != nil {
		t.Skip(err)
	}
	inner := spacesyncproto.StoreKeyInner{Peer: peerPub, Identity: idPub, Value: []byte(body), TimestampMicro: ts, AclHeadId: aclHead, Key: key}
	innerBytes, err := inner.MarshalVT()
	if err != nil {
		t.Skip(err)
	}
	peerSig, err := keys.PeerKey.Sign(innerBytes)
	if err != nil {
		t.Skip(err)
	}
	idSig, err := keys.SignKey.Sign(innerBytes)
	if err != nil {
		t.Skip(err)
	}
	return &spacesyncproto.StoreKeyValue{KeyPeerId: key + "-" + keys.PeerKey.GetPublic().PeerId(), Value: innerBytes, PeerSignature: peerSig, IdentitySignature: idSig}
}

func replayStored(t *testing.T, fx *fixture) map[string]int64 {
	out := map[string]int64{}
	err := fx.defaultStore.InnerStorage().IterateValues(ctx, func(kv innerstorage.KeyValue) (bool, error) {
		out[kv.KeyPeerId] = kv.TimestampMicro
		return true, nil
	})
	if err != nil {
		t.Skip(err)
	}
	return out
}

// LWW must not depend on arrival order (C12: "independent of the order ... in which values arrive").
func TestReplayC12NegativeTimestampOrderDependence(t *testing.T) {
	firstKeys, err := accountdata.NewRandom()
	if err != nil {
		t.Skip(err)
	}
	payload := newStorageCreatePayload(t, firstKeys)
	fxA := newFixture(t, firstKeys, payload)
	fxB := newFixture(t, firstKeys, payload)
	head := payload.AclWithId.Id
	neg := replaySignedValue(t, firstKeys, head, "k", -1, "neg")
	pos := replaySignedValue(t, firstKeys, head, "k", 5, "pos")
	if err = fxA.defaultStore.SetRaw(ctx, neg); err != nil {
		t.Skip(err)
	}
	_ = fxA.defaultStore.SetRaw(ctx, pos)
	if err = fxB.defaultStore.SetRaw(ctx, pos); err != nil {
		t.Skip(err)
	}
	_ = fxB.defaultStore.SetRaw(ctx, neg)
	a, b := replayStored(t, fxA), replayStored(t, fxB)
	if len(a) != len(b) {
		t.Fatalf("stores differ after the same two values arrived in different orders: %v vs %v", a, b)
	}
	for k, v := range a {
		if b[k] != v {
			t.Fatalf("stores differ after the same two values arrived in different orders: %v vs %v", a, b)
		}
	}
}

// A value must be filed under the slot named inside the signed bytes.
func TestReplayC12SlotRelabel(t *testing.T) {
	firstKeys, err := accountdata.NewRandom()
	if err != nil {
		t.Skip(err)
	}
	payload := newStorageCreatePayload(t, firstKeys)
	fx := newFixture(t, firstKeys, payload)
	v := replaySignedValue(t, firstKeys, payload.AclWithId.Id, "real-key", 7, "body")
	v.KeyPeerId = "other-key-" + firstKeys.PeerKey.GetPublic().PeerId()
	if err = fx.defaultStore.SetRaw(ctx, v); err != nil {
		return
	}
	for slot := range replayStored(t, fx) {
		if slot == v.KeyPeerId {
			t.Fatalf("a value signed for key %q was stored under the relabelled slot %q", "real-key", slot)
		}
	}
}

// The signing account must hold write permission at the ACL record the value cites.
func TestReplayC12NonMemberWrite(t *testing.T) {
	ownerKeys, err := accountdata.NewRandom()
	if err != nil {
		t.Skip(err)
	}
	strangerKeys, err := accountdata.NewRandom()
	if err != nil {
		t.Skip(err)
	}
	payload := newStorageCreatePayload(t, ownerKeys)
	fx := newFixture(t, ownerKeys, payload)
	v := replaySignedValue(t, strangerKeys, payload.AclWithId.Id, "k", 7, "body")
	if err = fx.defaultStore.SetRaw(ctx, v); err != nil {
		return
	}
	if len(replayStored(t, fx)) != 0 {
		t.Fatalf("a value signed by an account that is not a member of the space was stored")
	}
}
