package innerstorage_test

// Bounded stand-in (NOT a proof) for the history part of C12 at the inner key-value store: contents
// and advertised index are the last-writer-wins image of everything received, independent of order,
// grouping and repetition, and a failed write leaves the index equal to what is stored.  Bound: 5 (quick) / 40 (thorough)
// pseudo-random runs (fixed seed) of 16 batches of 1..5 values over 6 slots with timestamps 1..40
// (repeats and stale values included), each batch failing with probability 1/4 (injected fault in the
// head update inside the write transaction); after every batch: stored value per slot == oracle, live
// index hash == hash of an index rebuilt from the database, and at the end == a store that received
// the successful values in a different order and grouping.
import (
	"context"
	"errors"
	"fmt"
	"math/rand"
	"os"
	"path/filepath"
	"testing"

	anystore "github.com/anyproto/any-store"
	"github.com/stretchr/testify/require"

	"github.com/anyproto/any-sync/commonspace/headsync/headstorage"
	"github.com/anyproto/any-sync/commonspace/object/keyvalue/keyvaluestorage/innerstorage"
)

type verifFaultyHeads struct {
	headstorage.HeadStorage
	fail bool
}

func (f *verifFaultyHeads) UpdateEntry(ctx context.Context, update headstorage.HeadsUpdate) error {
	if f.fail {
		return errors.New("verif: injected storage fault")
	}
	return f.HeadStorage.UpdateEntry(ctx, update)
}

func verifValue(slot int, ts int64) innerstorage.KeyValue {
	fill := func(b byte) []byte {
		res := make([]byte, 16)
		for i := range res {
			res[i] = b
		}
		return res
	}
	key, peer := fmt.Sprintf("k%d", slot/2), fmt.Sprintf("p%d", slot%2)
	return innerstorage.KeyValue{
		KeyPeerId: key + "-" + peer, Key: key, PeerId: peer, ReadKeyId: "rk", Identity: "id", TimestampMicro: ts,
		Value: innerstorage.Value{Value: fill(byte(ts)), PeerSignature: fill(byte(ts) + 1), IdentitySignature: fill(byte(ts) + 2)},
	}
}

func verifOpen(t *testing.T, name string) (innerstorage.KeyValueStorage, *verifFaultyHeads, anystore.DB) {
	ctx := context.Background()
	db, err := anystore.Open(ctx, filepath.Join(t.TempDir(), name+".db"), nil)
	require.NoError(t, err)
	t.Cleanup(func() { _ = db.Close() })
	heads, err := headstorage.New(ctx, db)
	require.NoError(t, err)
	faulty := &verifFaultyHeads{HeadStorage: heads}
	st, err := innerstorage.New(ctx, "kv.verif", faulty, db)
	require.NoError(t, err)
	return st, faulty, db
}

func TestVerifBoundedKeyValueLWW(t *testing.T) {
	ctx := context.Background()
	rnd := rand.New(rand.NewSource(12))
	runs := 5 // quick tier; VERIF_TIER=thorough: 40
	if os.Getenv("VERIF_TIER") == "thorough" {
		runs = 40
	}
	for run := 0; run < runs; run++ {
		st, faulty, db := verifOpen(t, fmt.Sprintf("a%d", run))
		oracle := map[string]int64{}
		var accepted []innerstorage.KeyValue
		for b := 0; b < 16; b++ {
			var batch []innerstorage.KeyValue
			for k := 0; k < 1+rnd.Intn(5); k++ {
				batch = append(batch, verifValue(rnd.Intn(6), int64(1+rnd.Intn(40))))
			}
			faulty.fail = rnd.Intn(4) == 0
			err := st.Set(ctx, batch...)
			if faulty.fail {
				require.Error(t, err)
			} else {
				require.NoError(t, err)
				for _, v := range batch {
					if v.TimestampMicro > oracle[v.KeyPeerId] {
						oracle[v.KeyPeerId] = v.TimestampMicro
					}
				}
				accepted = append(accepted, batch...)
			}
			faulty.fail = false
			for id, ts := range oracle {
				got, err := st.GetKeyPeerId(ctx, id)
				require.NoError(t, err)
				require.Equal(t, ts, got.TimestampMicro, "run %d batch %d slot %s: stored timestamp differs from last-writer-wins", run, b, id)
			}
			rebuilt, err := innerstorage.New(ctx, "kv.verif", faulty, db)
			require.NoError(t, err)
			require.Equal(t, rebuilt.Diff().Hash(), st.Diff().Hash(), "run %d batch %d (failed=%v): live index differs from the index rebuilt from storage", run, b, err != nil)
			require.Equal(t, len(oracle), rebuilt.Diff().Len(), "run %d batch %d: number of stored slots", run, b)
		}
		// the same successful values in another order and grouping
		other, _, _ := verifOpen(t, fmt.Sprintf("b%d", run))
		rnd.Shuffle(len(accepted), func(i, j int) { accepted[i], accepted[j] = accepted[j], accepted[i] })
		for len(accepted) > 0 {
			k := 1 + rnd.Intn(4)
			if k > len(accepted) {
				k = len(accepted)
			}
			require.NoError(t, other.Set(ctx, accepted[:k]...))
			accepted = accepted[k:]
		}
		require.Equal(t, st.Diff().Hash(), other.Diff().Hash(), "run %d: index depends on order / grouping of arrival", run)
	}
}
