package encoding

import (
	"encoding/binary"
	"runtime"
	"testing"

	"github.com/anyproto/any-sync/commonspace/spacesyncproto"
)

// Witness for C11 / snappyEncoding.Unmarshal ensures[allocation_bounded_by_input]: a 5-byte frame
// whose header declares 256 MiB made the decoder allocate that much before looking at the body.
func TestReplayC11SnappyDeclaredLength(t *testing.T) {
	in := binary.AppendUvarint(nil, 256<<20)
	var before, after runtime.MemStats
	runtime.ReadMemStats(&before)
	err := snappyEncoding{}.Unmarshal(in, &spacesyncproto.HeadSyncRequest{})
	runtime.ReadMemStats(&after)
	if err == nil {
		t.Fatal("corrupt frame accepted")
	}
	if mib := (after.TotalAlloc - before.TotalAlloc) >> 20; mib > 1 {
		t.Fatalf("a %d-byte frame made the decoder allocate %d MiB", len(in), mib)
	}
}
