//go:build verif

// Contracts for package objecttree, checked by /verif (govc). Comment-only: compiled only under
// the build tag "verif", and even then it adds no code. Syntax: see /verif/DESIGN.md §2.3.
package objecttree

// ---------------------------------------------------------------------------------------------
// C09: common snapshot of two snapshot paths (full functional specification)
//
//@ func commonSnapshotForTwoPaths
//@   ensures [member_ours]   result1 == nil ==> (exists a int :: 0 <= a && a < len(ourPath) && ourPath[a] == result)
//@   ensures [member_theirs] result1 == nil ==> (exists b int :: 0 <= b && b < len(theirPath) && theirPath[b] == result)
//@   ensures [err_iff_disjoint] result1 != nil ==> (forall a int, b int :: 0 <= a && a < len(ourPath) && 0 <= b && b < len(theirPath) ==> ourPath[a] != theirPath[b])
//@   ensures [err_is_sentinel] result1 != nil ==> result1 == ErrNoCommonSnapshot && result == ""
//@   ensures [disjoint_gives_err] (forall a int, b int :: 0 <= a && a < len(ourPath) && 0 <= b && b < len(theirPath) ==> ourPath[a] != theirPath[b]) ==> result1 != nil
//@   loop 0:
//@     invariant -1 <= i && i <= len(ourPath) - 1
//@     invariant forall a int, b int :: i < a && a < len(ourPath) && 0 <= b && b < len(theirPath) ==> ourPath[a] != theirPath[b]
//@     decreases i + 1
//@   loop 1:
//@     invariant 0 <= i && i <= len(ourPath) - 1
//@     invariant -1 <= j && j <= len(theirPath) - 1
//@     invariant forall a int, b int :: i < a && a < len(ourPath) && 0 <= b && b < len(theirPath) ==> ourPath[a] != theirPath[b]
//@     invariant forall b int :: j < b && b < len(theirPath) ==> ourPath[i] != theirPath[b]
//@     decreases j + 1
//@   loop 2:
//@     invariant -1 <= i && i <= before(i) && before(i) < len(ourPath)
//@     invariant -1 <= j && j <= before(j) && before(j) < len(theirPath)
//@     invariant before(i) - i == before(j) - j
//@     invariant 0 <= before(i) && 0 <= before(j)
//@     invariant ourPath[before(i)] == theirPath[before(j)]
//@     invariant forall k int :: 0 < k && k <= before(i) - i ==> ourPath[i+k] == theirPath[j+k]
//@     decreases i + 1
