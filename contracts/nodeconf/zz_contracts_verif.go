//go:build verif

// Contracts for package nodeconf, checked by /verif (govc). Comment-only.
package nodeconf

// ---------------------------------------------------------------------------------------------
// C18: responsible nodes. The ring lookup itself (go-chash) is an assumed, deterministic function
// of (member list, key): chash.CHash.GetMembers is declared pure.
//
//@ func iface chash.CHash.GetMembers
//@   pure
//@   ensures forall k int :: 0 <= k && k < len(result) ==> result[k] != nil
//@ func iface chash.CHash.GetPartition
//@   pure
//@ func iface chash.Member.Id
//@   pure

// ReplKey: suffix after the last dot, or the whole id.
//@ func ReplKey
//@   pure
//@   ensures [no_dot]   lastIndex(spaceId, ".") == -1 ==> replKey == spaceId
//@   ensures [suffix]   lastIndex(spaceId, ".") != -1 ==> replKey == strsub(spaceId, lastIndex(spaceId, ".") + 1, len(spaceId))

// NodeIds(space) = members(ReplKey(space)) minus self, in ring order.
//@ func (*nodeConf).NodeIds
//@   requires c != nil && c.chash != nil
//@   ensures [sound]    forall k int :: 0 <= k && k < len(result) ==> result[k] != c.accountId && (exists j int :: 0 <= j && j < len(c.chash.GetMembers(ReplKey(spaceId))) && c.chash.GetMembers(ReplKey(spaceId))[j].Id() == result[k])
//@   ensures [complete] forall j int :: 0 <= j && j < len(c.chash.GetMembers(ReplKey(spaceId))) && c.chash.GetMembers(ReplKey(spaceId))[j].Id() != c.accountId ==> (exists k int :: 0 <= k && k < len(result) && result[k] == c.chash.GetMembers(ReplKey(spaceId))[j].Id())
//@   ensures [bounded]  len(result) <= len(c.chash.GetMembers(ReplKey(spaceId)))
//@   loop 0:
//@     invariant -1 <= rangeindex && rangeindex < len(members) && len(res) <= rangeindex + 1
//@     invariant members == c.chash.GetMembers(ReplKey(spaceId))
//@     invariant forall k int :: 0 <= k && k < len(members) ==> members[k] == old(c.chash.GetMembers(ReplKey(spaceId))[k])
//@     invariant rootof(res) > 0
//@     invariant c.accountId == old(c.accountId)
//@     invariant forall k int :: 0 <= k && k < len(res) ==> res[k] != c.accountId && (exists j int :: 0 <= j && j <= rangeindex && members[j].Id() == res[k])
//@     invariant forall j int :: 0 <= j && j <= rangeindex && members[j].Id() != c.accountId ==> (exists k int :: 0 <= k && k < len(res) && res[k] == members[j].Id())
//@     decreases len(members) - rangeindex

// IsResponsible(space) <=> self is one of members(ReplKey(space)).
//@ func (*nodeConf).IsResponsible
//@   requires c != nil && c.chash != nil
//@   ensures [iff_member] result <==> (exists j int :: 0 <= j && j < len(c.chash.GetMembers(ReplKey(spaceId))) && c.chash.GetMembers(ReplKey(spaceId))[j].Id() == c.accountId)
//@   loop 0:
//@     invariant -1 <= rangeindex && rangeindex < len(c.chash.GetMembers(ReplKey(spaceId)))
//@     invariant forall j int :: 0 <= j && j <= rangeindex ==> c.chash.GetMembers(ReplKey(spaceId))[j].Id() != c.accountId
//@     decreases len(c.chash.GetMembers(ReplKey(spaceId))) - rangeindex

// Partition uses the same replication key.
//@ func (*nodeConf).Partition
//@   requires c != nil && c.chash != nil
//@   ensures [same_key] part == c.chash.GetPartition(ReplKey(spaceId))
