//go:build verif

// Contracts for package ldiff, checked by /verif (govc). Comment-only.
package ldiff

// ---------------------------------------------------------------------------------------------
// C07: range subdivision is an exact partition of [from,to] into divideFactor contiguous,
// non-empty sub-ranges (shared by both sides of a diff).
//
//@ def rwidth(from, to) = to - from
//@ def ralign(from, to, df) = ((to - from) % df + 1) % df
//@ def rper(from, to, df) = ite(((to - from) % df + 1) % df == 0, (to - from) / df + 1, (to - from) / df)
//
//@ func genTupleRanges
//@   requires from <= to
//@   requires 2 <= divideFactor && divideFactor <= 1048576
//@   requires to - from >= divideFactor - 1
//@   ensures [len]        len(prepare) == divideFactor
//@   ensures [first]      prepare[0].from == from
//@   ensures [last]       prepare[divideFactor - 1].to == to
//@   ensures [contiguous] forall k int :: 0 <= k && k < divideFactor - 1 ==> prepare[k+1].from == prepare[k].to + 1
//@   ensures [nonempty]   forall k int :: 0 <= k && k < divideFactor ==> prepare[k].from <= prepare[k].to
//@   ensures [closed_form_from] forall k int :: 0 <= k && k < divideFactor ==> prepare[k].from == from + k * rper(from, to, divideFactor)
//@   ensures [closed_form_to]   forall k int :: 0 <= k && k < divideFactor - 1 ==> prepare[k].to == from + (k + 1) * rper(from, to, divideFactor) - 1
//@   loop 0:
//@     invariant 0 <= i && i <= divideFactor && len(prepare) == i
//@     invariant i < divideFactor ==> perRange == before(perRange)
//@     invariant 1 <= before(perRange)
//@     invariant divideFactor * before(perRange) + ralign(from, to, divideFactor) == to - from + 1
//@     invariant i < divideFactor ==> j == from + i * before(perRange)
//@     invariant i == divideFactor ==> j == wrap64(to + 1)
//@     invariant i > 0 ==> prepare[0].from == from
//@     invariant i > 0 ==> wrap64(prepare[i-1].to + 1) == j
//@     invariant i > 0 ==> prepare[i-1].to <= to
//@     invariant i == divideFactor ==> prepare[i-1].to == to
//@     invariant i < divideFactor ==> (divideFactor - i) * before(perRange) + ralign(from, to, divideFactor) == to - j + 1
//@     invariant i > 0 && i < divideFactor ==> prepare[i-1].to < to
//@     invariant forall k int :: 0 <= k && k < i - 1 ==> prepare[k+1].from == prepare[k].to + 1
//@     invariant forall k int :: 0 <= k && k < i ==> prepare[k].from <= prepare[k].to && prepare[k].to <= to
//@     invariant before(perRange) == rper(from, to, divideFactor)
//@     invariant forall k int :: 0 <= k && k < i ==> prepare[k].from == from + k * before(perRange)
//@     invariant forall k int :: 0 <= k && k < i && k < divideFactor - 1 ==> prepare[k].to == from + (k + 1) * before(perRange) - 1
//@     decreases divideFactor - i

// Bucket lookup: the key computed for elHash is exactly the sub-range of genTupleRanges that
// contains elHash (same closed form), in particular bucket <= divideFactor-1.
//
//@ func (*hashRanges).getBottomRange
//@   requires h != nil && rng != nil
//@   requires 2 <= h.divideFactor && h.divideFactor <= 1048576
//@   requires rng.from <= elHash && elHash <= rng.to
//@   requires rng.to - rng.from >= h.divideFactor - 1
//@   ensures [contains]    tuple.from <= elHash && elHash <= tuple.to
//@   ensures [bucket_range] 0 <= bucket && bucket < h.divideFactor
//@   ensures [is_subrange_from] tuple.from == rng.from + bucket * rper(rng.from, rng.to, h.divideFactor)
//@   ensures [is_subrange_to]   (bucket < h.divideFactor - 1 ==> tuple.to == rng.from + (bucket + 1) * rper(rng.from, rng.to, h.divideFactor) - 1) && (bucket == h.divideFactor - 1 ==> tuple.to == rng.to)
//@   ensures [result_is_lookup] result == h.ranges[tuple] || (result == nil && !(tuple in h.ranges))
