#!/bin/sh
# Build the verification engine offline from files on disk only.
set -e
cd "$(dirname "$0")"
export GOFLAGS=-mod=mod GOPROXY=off GOSUMDB=off GOTOOLCHAIN=local
mkdir -p bin .cache replays evidence
go1.26.8 build -o bin/govc ./cmd/govc
echo "govc built"
