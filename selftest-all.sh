#!/bin/sh
# run the must-fail corpus of every claimed property
cd "$(dirname "$0")"
export GOFLAGS=-mod=mod GOPROXY=off GOSUMDB=off
rc=0
for id in $(ls selftest); do
  bin/govc selftest $id 2>&1 | grep -v "^killed" || true
done
