#!/bin/sh
# sync contract files into /repo, commit them there as a hook commit, regenerate the manifest and commit /verif
cd "$(dirname "$0")"
./sync-contracts.sh
( cd /repo && git add -A '*zz_contracts_verif.go' && git diff --cached --quiet || git -C /repo commit -qm "verif-hook: update contract files (build tag verif, comment-only)" )
python3 tools/mkmanifest.py >/dev/null
git add -A && git commit -qm "$1" && echo "committed: $1"
