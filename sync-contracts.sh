#!/bin/sh
# copy /verif/contracts/**/zz_contracts_verif.go into /repo (the copy in /repo is what checks read)
cd "$(dirname "$0")/contracts"
find . -name zz_contracts_verif.go | while read f; do
  mkdir -p "/repo/$(dirname "$f")"
  cmp -s "$f" "/repo/$f" || { cp "$f" "/repo/$f"; echo "synced $f"; }
done
